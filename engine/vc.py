"""Obligation harness API, path exploration driver, solver dispatch and result records.

A *contract harness* is a Python function `h(vc)` registered with @obligation.  It creates symbolic
inputs, states the precondition with vc.assume(...), runs the real code (extracted from /repo) through
the symbolic interpreter with vc.new / vc.call / vc.attr, and states each postcondition clause with
vc.ensure(label, formula).  The driver replays the harness once per feasible path; a clause is
discharged when `path condition AND NOT clause` is unsat on every path.
"""
from __future__ import annotations

import json
import os
import subprocess
import tempfile
import time
import traceback

import z3

from .interp import Interp, Path, RaiseEx, Unsupported, Infeasible, zand, zor, znot
from .repo import Repo, ClassInfo
from .values import *  # noqa
from . import builtins_ as B

REGISTRY = []


class Obl:
    def __init__(self, oid, prop, fn, functions, replay, doc):
        self.id = oid
        self.prop = prop
        self.fn = fn
        self.functions = functions
        self.replay = replay
        self.doc = doc


def obligation(oid, prop, functions=(), replay=None):
    def deco(fn):
        REGISTRY.append(Obl(oid, prop, fn, list(functions), replay, (fn.__doc__ or "").strip()))
        return fn
    return deco


class ClauseResult:
    def __init__(self, label):
        self.label = label
        self.status = "discharged"
        self.paths = 0
        self.time = 0.0
        self.model = None
        self.reason = ""
        self.backend = "z3"


SOLVER_TIMEOUT_MS = int(os.environ.get("VERIF_SOLVER_TIMEOUT_MS", "20000"))


def _model_value(m, v):
    try:
        r = m.eval(v, model_completion=True)
        if z3.is_int_value(r):
            return r.as_long()
        if z3.is_true(r):
            return True
        if z3.is_false(r):
            return False
        return str(r)
    except Exception as ex:  # pragma: no cover
        return f"<{ex}>"


class VC:
    def __init__(self, repo, path, obl):
        self.repo = repo
        self.path = path
        self.obl = obl
        self.I = Interp(repo, path)
        self.inputs = {}  # name -> symbolic input (for counter-models)
        self.clauses = []  # (label, formula, pc snapshot)
        self.covered = False
        from . import stubs
        stubs.install(self.I)

    # ---- symbolic inputs
    def int(self, name, lo=None, hi=None):
        name = self.path.fresh_name(name)
        v = z3.Int(name)
        if lo is not None:
            self.path.assume(v >= lo)
        if hi is not None:
            self.path.assume(v <= hi)
        self.inputs[name] = v
        return v

    def bool(self, name):
        v = z3.Bool(self.path.fresh_name(name))
        self.inputs[name] = v
        return v

    def real(self, name):
        v = z3.Real(self.path.fresh_name(name))
        self.inputs[name] = v
        return v

    def seq(self, name, positive=False, min_len=0, kind="tuple"):
        s = self.I.fresh_seq(name, positive=positive, min_len=min_len, kind=kind)
        while name in self.inputs:
            name += "'"
        self.inputs[name] = s
        return s

    def set(self, name):
        s = SymSet(z3.Array(self.path.fresh_name(name), IntS, BoolS))
        self.inputs[name] = s
        return s

    def shape(self, name, rank):
        """a tuple of `rank` positive symbolic ints (fixed rank, all sizes)"""
        dims = tuple(z3.Int(self.path.fresh_name(f"{name}{i}")) for i in range(rank))
        for d in dims:
            self.path.assume(d >= 1)
        self.inputs[name] = dims
        return dims

    def opaque(self, name, attrs=None, cls=None):
        c = self.repo.lookup(cls) if isinstance(cls, str) else cls
        return Opaque(self.path.fresh_name(name), attrs, c)

    # ---- logic
    def assume(self, f):
        if isinstance(f, bool):
            if not f:
                raise Infeasible()
            return
        self.path.assume(f)

    def ensure(self, label, f):
        self.clauses.append((label, f))

    def cardinality_abstraction_is_exact(self, why):
        """the harness states (with a reason recorded in the evidence) that on its paths the uninterpreted cardinality is pinned
        down by other axioms (e.g. a bijective enumeration of an ARBITRARY set), so counter-models are not downgraded"""
        self.path.exact_card = True
        self.path.notes.add("cardinality abstraction declared exact: " + why)

    def must(self, f):
        return self.path.must(to_z3(f))

    def eq(self, a, b):
        return B.equal(self.I, a, b)

    def len(self, s):
        return self.I.builtins["len"].fn(s)

    def at(self, s, i):
        """element i of a sequence *without* the IndexError branch (spec-level access)"""
        if isinstance(s, SymSeq):
            return s.elem(i)
        return B.as_symseq(s).elem(i) if not isinstance(i, int) else s[i]

    def forall(self, n, body, name="q"):
        """forall 0 <= k < n: body(k)"""
        k = z3.Int(self.path.fresh_name("k_" + name))
        b = body(k)
        return z3.ForAll([k], z3.Implies(z3.And(k >= 0, k < to_z3(n)), to_z3(b)))

    def exists(self, n, body, name="e"):
        k = z3.Int(self.path.fresh_name("k_" + name))
        return z3.Exists([k], z3.And(k >= 0, k < to_z3(n), to_z3(body(k))))

    # ---- running real code
    def _frame(self):
        from .interp import Frame
        return Frame(None, {}, module=None)

    def new(self, qual, *args, **kwargs):
        self.I.frames.append(self._frame())
        try:
            return self.I.call_qual(qual, *args, **kwargs)
        finally:
            self.I.frames.pop()

    def call(self, target, *args, **kwargs):
        """target: 'path.py:func' | (obj, 'method')"""
        self.I.frames.append(self._frame())
        try:
            if isinstance(target, str):
                return self.I.call_qual(target, *args, **kwargs)
            obj, name = target
            f = B.getattr_(self.I, obj, name)
            return self.I.call(f, list(args), kwargs)
        finally:
            self.I.frames.pop()

    def attr(self, obj, name):
        self.I.frames.append(self._frame())
        try:
            return B.getattr_(self.I, obj, name)
        finally:
            self.I.frames.pop()

    # ---- Hoare-style loop rule: run the statements before / inside / after the k-th top-level loop of the real function
    def _loop_parts(self, qual, loop=0):
        """(function, statements before the loop, the loop, statements after it).  `loop` is the ordinal of a top-level loop, or a tuple
        (k0, k1, ...) descending into nested loops: (k0, k1) is loop number k1 among the statements of the BODY of top-level loop k0 - its
        prefix / suffix are then the statements of that body before / after it."""
        import ast as _ast
        fi = self.repo.lookup(qual)
        self.repo.touch(fi)
        body = [s for s in fi.node.body if not (isinstance(s, _ast.Expr) and isinstance(getattr(s, "value", None), _ast.Constant))]
        if isinstance(loop, tuple):
            for k in loop[:-1]:
                idxs = [i for i, s in enumerate(body) if isinstance(s, (_ast.For, _ast.While))]
                if k >= len(idxs):
                    raise KeyError(f"{qual}: no loop number {k} at this nesting level")
                body = list(body[idxs[k]].body)
            loop = loop[-1]
        idxs = [i for i, s in enumerate(body) if isinstance(s, (_ast.For, _ast.While))]
        if loop >= len(idxs):
            raise KeyError(f"{qual}: no top-level loop number {loop}")
        i = idxs[loop]
        start = idxs[loop - 1] + 1 if loop > 0 else 0
        return fi, body[start:i], body[i], body[i + 1:(idxs[loop + 1] if loop + 1 < len(idxs) else len(body))]

    def _run_stmts(self, fi, stmts, locals_):
        from .interp import Frame, ReturnEx, ContinueEx, BreakEx
        fr = Frame(fi, locals_, module=fi.module, cls_ctx=fi.cls)
        fr.yields = []                      # values yielded by these statements of a generator function (read by the harness)
        self.last_yields = fr.yields
        self.I.frames.append(fr)
        try:
            try:
                self.I.exec_block(stmts)
            except ContinueEx:
                return "continue", None
            except BreakEx:
                return "break", None
            except ReturnEx as r:
                return "return", r.value
            return "fallthrough", None
        finally:
            self.I.frames.pop()

    def run_prefix(self, qual, locals_, loop=0):
        """execute the statements of the real function that precede its loop (refusals surface as RaiseEx); `locals_` holds the
        arguments and is updated in place with the locals the prefix defines"""
        fi, pre, _, _ = self._loop_parts(qual, loop)
        a = fi.node.args
        for p, d in zip(reversed(a.args), reversed(a.defaults)):
            if p.arg not in locals_:
                self.I.frames.append(__import__("engine.interp", fromlist=["Frame"]).Frame(fi, {}, module=fi.module))
                try:
                    locals_[p.arg] = self.I.eval(d)
                finally:
                    self.I.frames.pop()
        for p, d in zip(a.kwonlyargs, a.kw_defaults):
            if p.arg not in locals_ and d is not None:
                locals_[p.arg] = self.I.eval(d) if not isinstance(d, __import__("ast").Constant) else d.value
        return self._run_stmts(fi, pre, locals_)

    def run_loop_body(self, qual, locals_, item, loop=0):
        """one iteration of the loop from the state `locals_` with the loop target bound to `item`"""
        fi, _, lp, _ = self._loop_parts(qual, loop)
        from .interp import Frame
        if hasattr(lp, "target"):                       # a `for` loop: bind the loop target; a `while` loop has none (item is ignored)
            fr = Frame(fi, locals_, module=fi.module, cls_ctx=fi.cls)
            self.I.frames.append(fr)
            try:
                self.I.assign(lp.target, item)
            finally:
                self.I.frames.pop()
        return self._run_stmts(fi, lp.body, locals_)

    def run_suffix(self, qual, locals_, loop=0):
        fi, _, _, post = self._loop_parts(qual, loop)
        return self._run_stmts(fi, post, locals_)

    def raises(self, thunk):
        """run thunk(); returns (exception name | None, value)"""
        try:
            return None, thunk()
        except RaiseEx as e:
            return e.name, None

    # ---- tensors (engine B)
    def tensor(self, name, shape, dtype="float"):
        from . import tensor as T
        t = T.leaf(self.I, name, list(shape), dtype)
        return t

    def red(self, kind, sizes, body):
        """spec-level reduction over len(sizes) independent index variables"""
        from . import tensor as T
        return T.make_red(self.I, kind, [[s] for s in sizes], lambda r: body(*r))

    def mr(self, *pairs):
        from . import tensor as T
        return T.MR(list(pairs))

    def fn(self, name, *args):
        from . import tensor as T
        return T.elemwise(name, *args)

    def index_consts(self, shape, prefix="i"):
        """fresh index constants in range of `shape` (universally quantified by being arbitrary)"""
        out = []
        for j, s in enumerate(shape):
            v = z3.Int(self.path.fresh_name(f"{prefix}{j}"))
            self.path.assume(v >= 0)
            self.path.assume(v < to_z3(s))
            out.append(v)
        return out

    def isinstance(self, obj, qual):
        ci = self.repo.lookup(qual)
        return isinstance(obj, Obj) and self.repo.is_subclass(obj.cls, ci)


def _int_consts(e, acc, seen=None):
    seen = seen if seen is not None else set()
    if e.get_id() in seen:
        return acc
    seen.add(e.get_id())
    if z3.is_const(e) and e.decl().kind() == z3.Z3_OP_UNINTERPRETED and z3.is_int(e):
        acc[e.get_id()] = e
    for c in e.children():
        _int_consts(c, acc, seen)
    if z3.is_quantifier(e):
        _int_consts(e.body(), acc, seen)
    return acc


def _check(path, f):
    """status of `pc AND NOT f`"""
    t0 = time.time()
    s = path.solver
    s.set(timeout=SOLVER_TIMEOUT_MS)
    s.push()
    try:
        s.add(z3.Not(to_z3(f)) if not isinstance(f, bool) else z3.BoolVal(not f))
        r = str(s.check())
        if r == "unknown":
            # counter-model search in a small sub-domain: every integer constant of the query within [-1, 8].  A model found
            # there is a model of the unrestricted query (the bounds only remove models), so `sat` is definitive
            consts = {}
            for a in s.assertions():
                _int_consts(a, consts)
            s.push()
            try:
                for c in consts.values():
                    s.add(c >= -1, c <= 8)
                s.set(timeout=min(SOLVER_TIMEOUT_MS, 15000))
                if str(s.check()) == "sat":
                    r = "sat"
                    model = s.model()
                    return r, model, "", time.time() - t0, "z3 (bounded counter-model search after unknown)"
            finally:
                s.pop()
                s.set(timeout=SOLVER_TIMEOUT_MS)
        model = s.model() if r == "sat" else None
        reason = s.reason_unknown() if r == "unknown" else ""
        smt2 = s.to_smt2() if r == "unknown" else None
    finally:
        s.pop()
    backend = "z3"
    if r == "unknown" and smt2 is not None:
        r2 = _cvc5(smt2)
        if r2 in ("sat", "unsat"):
            # cvc5 can only *discharge* here: its models are not read back
            if r2 == "unsat":
                r, backend = "unsat", "cvc5"
    return r, model, reason, time.time() - t0, backend


def _cvc5(smt2):
    try:
        with tempfile.NamedTemporaryFile("w", suffix=".smt2", delete=False, dir=os.environ.get("VERIF_WORK", None)) as f:
            f.write("(set-logic ALL)\n" + smt2)
            fn = f.name
        try:
            out = subprocess.run(["/usr/bin/cvc5", f"--tlimit={SOLVER_TIMEOUT_MS}", fn], capture_output=True, text=True,
                                 timeout=SOLVER_TIMEOUT_MS / 1000 + 5).stdout.strip().splitlines()
        finally:
            os.unlink(fn)
        return out[0] if out else "unknown"
    except Exception:
        return "unknown"


def _small_model(path, f, inputs):
    """try to get a small counter-model: bound lengths and magnitudes, fall back to any model"""
    s = path.solver
    for bound in (3, 6, 12, None):
        s.push()
        try:
            s.add(z3.Not(to_z3(f)) if not isinstance(f, bool) else z3.BoolVal(not f))
            if bound is not None:
                for v in inputs.values():
                    for t in _leaves(v):
                        if z3.is_int(t):
                            s.add(t <= bound, t >= -bound)
            if str(s.check()) == "sat":
                return s.model()
        finally:
            s.pop()
    return None


def _leaves(v):
    if isinstance(v, SymSeq):
        yield to_z3(v.length)
        for i in range(4):
            e = v.elem(i)
            if is_z3(e) and z3.is_int(e):
                yield e
    elif isinstance(v, (tuple, list)):
        for x in v:
            yield from _leaves(x)
    elif is_z3(v) and z3.is_int(v):
        yield v


def _dump_inputs(model, inputs):
    out = {}
    for name, v in inputs.items():
        out[name] = _dump_value(model, v)
    return out


def _dump_value(model, v):
    if isinstance(v, SymSeq):
        n = _model_value(model, to_z3(v.length))
        if isinstance(n, int) and 0 <= n <= 32:
            return [_model_value(model, to_z3(v.elem(i))) for i in range(n)]
        return {"length": n}
    if isinstance(v, SymSet):
        return {"set": [i for i in range(-2, 24) if _model_value(model, z3.Select(v.arr, i)) is True], "window": [-2, 24]}
    if isinstance(v, (tuple, list)):
        return [_dump_value(model, x) for x in v]
    if is_z3(v):
        return _model_value(model, v)
    return repr(v)


def run_obligation(obl: Obl, repo_root=None):
    """Explore all paths of the harness; returns a json-able record."""
    t0 = time.time()
    rec = {"id": obl.id, "property": obl.prop, "doc": obl.doc, "status": "discharged", "clauses": [], "paths": 0,
           "paths_covered": 0, "functions": {}, "notes": [], "solver_time_s": 0.0, "declared_functions": obl.functions}
    clauses = {}
    stack = [[]]
    repo = Repo(repo_root) if repo_root else Repo()
    npaths = 0
    try:
        while stack:
            dec = stack.pop()
            path = Path(dec)
            vc = VC(repo, path, obl)
            outcome = "normal"
            try:
                obl.fn(vc)
            except Infeasible:
                outcome = "infeasible"
            except RaiseEx as e:
                outcome = "raises"
                vc.clauses.append((f"no_unexpected_exception", False))
                vc._exc = f"{e.name} at {e.where}"
            except Unsupported as e:
                # the clauses stated BEFORE the construct outside the subset are still decided on this path (a refutation
                # among them is definitive); the obligation as a whole can no longer be discharged
                outcome = "partial"
                rec["partial_unsupported"] = str(e)
            vc.clauses.extend(getattr(vc.I, "side_clauses", []))
            for i in range(len(dec), len(path.decisions)):
                stack.append(path.decisions[:i] + [False])
            if outcome == "infeasible":
                continue
            npaths += 1
            if npaths > 4000:
                raise Unsupported("path explosion (> 4000 paths)")
            cover = str(path.solver.check())
            if cover == "unsat":
                continue
            if cover != "unsat" and vc.clauses:
                # "unknown" (solver budget exhausted under load) is not evidence of vacuity
                rec["paths_covered"] += 1
            rec["notes"] = sorted(set(rec["notes"]) | path.notes)
            for label, f in vc.clauses:
                cr = clauses.setdefault(label, ClauseResult(label))
                cr.paths += 1
                if cr.status == "refuted":
                    continue
                if isinstance(f, bool) and f:
                    continue
                r, model, reason, dt, backend = _check(path, f)
                cr.time += dt
                rec["solver_time_s"] += dt
                if backend != "z3":
                    cr.backend = backend
                if r == "sat" and any(n.startswith("ABSTRACT-CARD") for n in path.notes) and not getattr(path, "exact_card", False):
                    # the counter-model lives in an incomplete abstraction (uninterpreted cardinality): possibly spurious
                    if cr.status != "refuted":
                        cr.status = "undecided"
                        cr.reason = "sat on a path that uses the uninterpreted cardinality abstraction (possibly spurious counter-model)"
                elif r == "sat":
                    cr.status = "refuted"
                    m2 = _small_model(path, f, vc.inputs) or model
                    cr.model = {"inputs": _dump_inputs(m2, vc.inputs), "decisions": list(path.decisions),
                                "exception": getattr(vc, "_exc", None)}
                elif r == "unknown" and cr.status != "refuted":
                    cr.status = "undecided"
                    cr.reason = reason
        rec["paths"] = npaths
        rec["functions"] = dict(repo.touched)
        for label, cr in clauses.items():
            rec["clauses"].append({"label": label, "status": cr.status, "paths": cr.paths, "time_s": round(cr.time, 4),
                                   "model": cr.model, "reason": cr.reason, "backend": cr.backend})
        sts = [c["status"] for c in rec["clauses"]]
        if "refuted" in sts:
            rec["status"] = "refuted"
        elif "undecided" in sts:
            rec["status"] = "undecided"
        elif not sts or rec["paths_covered"] == 0:
            rec["status"] = "vacuous"
        if rec.get("partial_unsupported") and rec["status"] != "refuted":
            rec["status"] = "unsupported"
            rec["error"] = rec["partial_unsupported"]
        missing = [q for q in obl.functions if q not in rec["functions"]]
        if missing and rec["status"] == "discharged":
            rec["status"] = "vacuous"
            rec["notes"].append(f"declared functions never executed: {missing}")
    except Unsupported as e:
        rec["status"] = "unsupported"
        rec["error"] = str(e)
        rec["functions"] = dict(repo.touched)
    except Exception as e:  # checker crash: never a violation
        rec["status"] = "error"
        rec["error"] = f"{type(e).__name__}: {e}"
        rec["trace"] = traceback.format_exc()[-2000:]
    rec["wall_s"] = round(time.time() - t0, 3)
    rec["solver_time_s"] = round(rec["solver_time_s"], 4)
    return rec
