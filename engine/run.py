"""Run contract modules: python3-vt -m engine.run contracts.C14_shapes [...] --out file.json [--jobs N] [--only id-substring]"""
from __future__ import annotations

import argparse
import importlib
import json
import multiprocessing as mp
import os
import sys
import time

from . import vc as V


def _load(mods):
    V.REGISTRY.clear()
    for m in mods:
        importlib.import_module(m)
    return list(V.REGISTRY)


_OBLS = {}


def _work(args):
    mods, oid = args
    return V.run_obligation(_OBLS[oid])


def run(mods, jobs=16, only=None):
    obls = _load(mods)
    _OBLS.clear()
    _OBLS.update({o.id: o for o in obls})
    ids = [o.id for o in obls if only is None or only in o.id]
    if len(set(ids)) != len(ids):
        raise SystemExit("duplicate obligation ids: " + str(sorted(i for i in ids if ids.count(i) > 1)))
    t0 = time.time()
    if jobs <= 1 or len(ids) <= 1:
        recs = [_work((mods, i)) for i in ids]
    else:
        with mp.get_context("fork").Pool(min(jobs, len(ids))) as pool:
            recs = pool.map(_work, [(mods, i) for i in ids], chunksize=1)
    return {"modules": mods, "wall_s": round(time.time() - t0, 2), "obligations": recs}


def main():
    ap = argparse.ArgumentParser()
    ap.add_argument("mods", nargs="+")
    ap.add_argument("--out")
    ap.add_argument("--jobs", type=int, default=int(os.environ.get("VERIF_JOBS", "16")))
    ap.add_argument("--only")
    ap.add_argument("-v", action="store_true")
    a = ap.parse_args()
    res = run(a.mods, a.jobs, a.only)
    if a.out:
        with open(a.out, "w") as f:
            json.dump(res, f, indent=1, default=str)
    bad = 0
    for r in res["obligations"]:
        if r["status"] != "discharged" or a.v:
            print(f"{r['status']:12s} {r['id']}  paths={r['paths']} t={r['wall_s']}s {r.get('error','')}")
            for c in r["clauses"]:
                if c["status"] != "discharged":
                    print("     ", c["label"], c["status"], json.dumps(c["model"], default=str)[:400] if c["model"] else c["reason"])
            if r["status"] == "vacuous":
                print("      notes:", [n for n in r.get("notes", []) if "never executed" in n], "paths_covered", r.get("paths_covered"))
            if r.get("trace"):
                print(r["trace"])
        bad += r["status"] != "discharged"
    n = len(res["obligations"])
    print(f"{n - bad}/{n} obligations discharged in {res['wall_s']}s")
    sys.exit(0 if bad == 0 else 1)


if __name__ == "__main__":
    main()
