"""Assumed contracts for names from outside the repository (functools, typing, copy, itertools, numpy
scalars, nn.Module registration).  Torch tensor primitives live in engine/tensor.py.
All of these are part of the trusted base and are listed in the evidence."""
from __future__ import annotations

import itertools

import z3

from .values import *  # noqa
from .interp import Unsupported, FuncVal
from . import builtins_ as B


class NpScalar:
    def __init__(self, v):
        self.v = v

    def __vf_getattr__(self, I, name):
        if name == "item":
            return BoundBuiltin(lambda: self.v)
        raise Unsupported(f"numpy scalar attribute {name}")


class Token:
    """an opaque external constant (dtype, device, ...) compared by name"""

    def __init__(self, name):
        self.name = name

    def __repr__(self):
        return f"<{self.name}>"

    def __vf_getattr__(self, I, name):
        if name == "to_complex":
            return BoundBuiltin(lambda: Token(self.name + ".to_complex"))
        if name == "to_real":
            return BoundBuiltin(lambda: Token(self.name + ".to_real"))
        raise Unsupported(f"attribute {name} of Token")

    def __vf_compare__(self, I, op, a, b):
        import ast
        same = isinstance(a, Token) and isinstance(b, Token) and a.name == b.name
        if isinstance(op, (ast.Eq, ast.Is)):
            return same
        if isinstance(op, (ast.NotEq, ast.IsNot)):
            return not same
        raise Unsupported("ordering of external tokens")


RefS = z3.DeclareSort("Ref")


def ref_term(x):
    """the z3 term (sort Ref) standing for the identity of an object the contract does not look into"""
    if isinstance(x, RefVal):
        return x.term
    if isinstance(x, Opaque):
        return x.const
    if isinstance(x, Obj):
        return obj_ref(x)
    if x is None:
        return z3.Const("None!ref", RefS)
    raise Unsupported(f"object of type {type(x).__name__} used as a symbolic reference")


class RefVal:
    """a symbolic object reference (e.g. the value found in a map of arbitrary content)"""

    def __init__(self, term):
        self.term = term

    def __repr__(self):
        return f"<ref {self.term}>"

    def __vf_compare__(self, I, op, a, b):
        import ast
        try:
            same = ref_term(a) == ref_term(b)
        except Unsupported:
            same = False
        if isinstance(op, (ast.Eq, ast.Is)):
            return same
        if isinstance(op, (ast.NotEq, ast.IsNot)):
            return z3.Not(same) if is_z3(same) else not same
        raise Unsupported("ordering of references")


class SymMap:
    """a dict of ARBITRARY content keyed by object identity: (domain : Ref -> Bool, value : Ref -> Ref).  Used to state
    representation invariants over every reachable state of a registry instead of sampling histories."""

    def __init__(self, name):
        self.dom = z3.Array(name + "_dom", RefS, z3.BoolSort())
        self.val = z3.Array(name + "_val", RefS, RefS)

    def __vf_contains__(self, I, k):
        return z3.Select(self.dom, ref_term(k))

    def __vf_getitem__(self, I, k):
        kt = ref_term(k)
        if not I.decide(z3.Select(self.dom, kt)):
            I.raise_("KeyError", "dict lookup")
        return RefVal(z3.Select(self.val, kt))

    def __vf_setitem__(self, I, k, v):
        kt = ref_term(k)
        self.dom = z3.Store(self.dom, kt, True)
        self.val = z3.Store(self.val, kt, ref_term(v))


class LoopMap:
    """the state of a dict at the head of an ARBITRARY loop iteration: a symbolic base of arbitrary content (keys compared by
    object identity) plus the concrete entries written during the iteration under verification (`written`, in order).  Reads
    look at the entries written in this iteration first, then at the base; a key that is neither is a KeyError path."""

    def __init__(self, name):
        self.base = SymMap(name)
        self.written = []          # [(key object, python value)]

    def __vf_contains__(self, I, k):
        for kk, _ in self.written:
            if kk is k:
                return True
        return self.base.__vf_contains__(I, k)

    def __vf_getitem__(self, I, k):
        for kk, v in reversed(self.written):
            if kk is k:
                return v
        return self.base.__vf_getitem__(I, k)

    def __vf_setitem__(self, I, k, v):
        self.written.append((k, v))

    def __vf_getattr__(self, I, name):
        if name == "get":
            def get(k, default=None):
                for kk, v in reversed(self.written):
                    if kk is k:
                        return v
                if I.decide(self.base.__vf_contains__(I, k)):
                    return RefVal(z3.Select(self.base.val, ref_term(k)))
                return default
            return BoundBuiltin(get)
        raise Unsupported(f"dict.{name} on a loop-state map")


_OBJ_REFS = {}


def obj_ref(o):
    """a Ref constant per heap object allocated on this path (distinct objects get distinct constants: stated by the caller)"""
    return z3.Const(f"obj!{o.oid}", RefS)


class CtxToken:
    def __init__(self, var, old):
        self.var, self.old, self.used = var, old, False

    def __vf_getattr__(self, I, name):
        if name == "old_value":
            return self.old
        if name == "var":
            return self.var
        raise Unsupported(f"Token.{name}")


class CtxVar:
    """contextvars.ContextVar (documented contract): get() -> current value or the default; set(v) -> a token remembering the
    previous value; reset(token) -> restores that value, RuntimeError if the token was already used, ValueError if it was
    created by another variable"""
    MISSING = object()

    def __init__(self, name, default=MISSING):
        self.name, self.default, self.value = name, default, CtxVar.MISSING
        self.log = []

    def current(self):
        return self.default if self.value is CtxVar.MISSING else self.value

    def __vf_getattr__(self, I, name):
        if name == "get":
            def get(*d):
                v = self.current()
                if v is CtxVar.MISSING:
                    if d:
                        return d[0]
                    I.raise_("LookupError", "ContextVar.get")
                return v
            return BoundBuiltin(get)
        if name == "set":
            def set_(v):
                tok = CtxToken(self, self.value)
                self.value = v
                self.log.append(("set", v))
                return tok
            return BoundBuiltin(set_)
        if name == "reset":
            def reset(tok):
                if not isinstance(tok, CtxToken):
                    I.raise_("TypeError", "ContextVar.reset")
                if tok.var is not self:
                    I.raise_("ValueError", "ContextVar.reset: token created by a different ContextVar")
                if tok.used:
                    I.raise_("RuntimeError", "ContextVar.reset: token has already been used")
                tok.used = True
                self.value = tok.old
                self.log.append(("reset", tok.old))
            return BoundBuiltin(reset)
        raise Unsupported(f"ContextVar.{name}")


class SymToken:
    """an external constant of symbolic identity (e.g. an arbitrary torch dtype): two tokens of one family are equal iff
    their integer ids are"""

    def __init__(self, family, zid):
        self.family, self.zid = family, zid

    def __repr__(self):
        return f"<{self.family}:{self.zid}>"

    def __vf_getattr__(self, I, name):
        # any attribute of an arbitrary token is an (unknown) function of its identity: boolean for is_* names, integer otherwise
        if name.startswith("is_"):
            return z3.Function(f"{self.family}.{name}", z3.IntSort(), z3.BoolSort())(to_z3(self.zid))
        return z3.Function(f"{self.family}.{name}", z3.IntSort(), z3.IntSort())(to_z3(self.zid))

    def __vf_compare__(self, I, op, a, b):
        import ast
        if isinstance(a, SymToken) and isinstance(b, SymToken) and a.family == b.family:
            same = to_z3(a.zid) == to_z3(b.zid)
        else:
            same = False
        if isinstance(op, (ast.Eq, ast.Is)):
            return same
        if isinstance(op, (ast.NotEq, ast.IsNot)):
            return z3.Not(same) if is_z3(same) else not same
        raise Unsupported("ordering of external tokens")


class NdArray:
    """numpy.array(list of numbers): a 1-D constant array (only its length and its entries are observable)"""

    def __init__(self, values):
        self.values = list(values)

    def __vf_getattr__(self, I, name):
        if name == "shape":
            return (len(self.values),)
        if name == "ndim":
            return 1
        if name == "dtype":
            # numpy.array of Python numbers / reals: a floating dtype (integer observations are promoted by the cat with
            # float tensors downstream; the dtype only selects the symbolic DataType here)
            return Opaque("np_dtype", {"type": ExternalVal("numpy.float64")})
        raise Unsupported(f"ndarray.{name}")

    def __vf_isinstance__(self, I, t):
        return getattr(t, "name", getattr(t, "dotted", "")).split(".")[-1] == "ndarray"

    def __vf_len__(self, I):
        return len(self.values)


class Deque:
    """collections.deque restricted to append / appendleft / pop / popleft / len / truthiness / iteration"""

    def __init__(self, items):
        self.items = list(items)

    def __vf_getattr__(self, I, name):
        if name == "append":
            return BoundBuiltin(lambda x: self.items.append(x))
        if name == "appendleft":
            return BoundBuiltin(lambda x: self.items.insert(0, x))
        if name == "extend":
            return BoundBuiltin(lambda xs: self.items.extend(B.iterate(I, xs)))
        if name in ("pop", "popleft"):
            def pop():
                if not self.items:
                    I.raise_("IndexError", "pop from an empty deque")
                return self.items.pop(0 if name == "popleft" else -1)
            return BoundBuiltin(pop)
        raise Unsupported(f"deque.{name}")

    def __vf_len__(self, I):
        return len(self.items)

    def __vf_iter__(self, I):
        return list(self.items)


def install(I):
    ext = I.externals

    def partial(I, args, kwargs):
        return PartialVal(args[0], args[1:], kwargs)

    def cast(I, args, kwargs):
        return args[1]

    def copy_(I, args, kwargs):
        o = args[0]
        if isinstance(o, Obj):
            m = I.repo.find_method(o.cls, "__copy__")
            if m is not None:
                return I.call_func(FuncVal(m, o, cls_ctx=m.cls), [], {})
            return Obj(o.cls, dict(o.fields))
        if isinstance(o, (list, dict)):
            return type(o)(o)
        return o

    def register_buffer(I, args, kwargs):
        o = args[0]

        def reg(name, value, **kw):
            o.fields[name] = value
        return BoundBuiltin(reg)

    def torch_tensor(I, args, kwargs):
        v = args[0]
        if isinstance(v, (list, tuple, SymSeq)):
            return IntTensorConst(v)
        raise Unsupported("torch.tensor of non-list")

    def np_prod(I, args, kwargs):
        r = 1
        for x in B.iterate(I, args[0]):
            r = r * x
        return NpScalar(r)

    def it_product(I, args, kwargs):
        rep = kwargs.get("repeat", 1)
        return [tuple(t) for t in itertools.product(*[B.iterate(I, a) for a in args], repeat=rep)]

    def it_chain(I, args, kwargs):
        return [x for a in args for x in B.iterate(I, a)]

    def it_chain_from(I, args, kwargs):
        return [x for a in B.iterate(I, args[0]) for x in B.iterate(I, a)]

    def it_accumulate(I, args, kwargs):
        import ast
        out, acc = [], None
        for i, x in enumerate(B.iterate(I, args[0])):
            acc = x if i == 0 else B.binop(I, ast.Add(), acc, x)
            out.append(acc)
        return out

    def it_combinations(I, args, kwargs):
        return [tuple(t) for t in itertools.combinations(B.iterate(I, args[0]), args[1])]

    def heapq_merge(I, args, kwargs):
        """heapq.merge(*iterables, key=None) (documented contract): a k-way merge - repeatedly the smallest current head,
        the earliest iterable on ties; the inputs are NOT sorted by it (unsorted inputs give an unsorted result)"""
        key = kwargs.get("key")
        lists = [list(B.iterate(I, a)) for a in args]
        kf = (lambda x: I.call(key, [x], {})) if key is not None else (lambda x: x)
        out = []
        while any(lists):
            best = None
            for j, l in enumerate(lists):
                if not l:
                    continue
                if best is None:
                    best = j
                    continue
                a, b = kf(l[0]), kf(lists[best][0])
                if I.decide(B.compare(I, __import__("ast").Lt(), a, b)):
                    best = j
            out.append(lists[best].pop(0))
        return out

    def fromkeys(I, args, kwargs):
        d = {}
        for k in B.iterate(I, args[0]):
            d.setdefault(B.hashable(k), args[1] if len(args) > 1 else None)
        return d

    def defaultdict(I, args, kwargs):
        d = B.DDict()
        d.factory = args[0] if args else None
        if d.factory is None:
            raise Unsupported("defaultdict without factory")
        return d

    def deque(I, args, kwargs):
        return Deque(B.iterate(I, args[0]) if args else [])

    def np_log(I, args, kwargs):
        import math
        if isinstance(args[0], (int, float)):
            return math.log(args[0])
        raise Unsupported("numpy.log of non-constant")

    def np_array(I, args, kwargs):
        return NdArray(B.iterate(I, args[0]))

    def np_broadcast_shapes(I, args, kwargs):
        a, b = (list(B.iterate(I, x)) for x in args[:2])
        if len(a) == len(b) and all(I.path.must(to_z3(x) == to_z3(y)) if (is_z3(x) or is_z3(y)) else x == y for x, y in zip(a, b)):
            return tuple(b)
        raise Unsupported("numpy.broadcast_shapes of shapes not provably equal")

    def ft_reduce(I, args, kwargs):
        f, xs = args[0], B.iterate(I, args[1])
        if len(args) > 2:
            acc, rest = args[2], xs
        else:
            if not xs:
                I.raise_("TypeError", "reduce() of empty iterable with no initial value")
            acc, rest = xs[0], xs[1:]
        for x in rest:
            acc = I.call(f, [acc, x], {})
        return acc

    ext.update({
        "functools.reduce": ft_reduce,
        "numpy.array": np_array,
        "numpy.broadcast_shapes": np_broadcast_shapes,
        "numpy.log": np_log,
        "math.log": np_log,
        "functools.partial": partial,
        "typing.cast": cast,
        "typing.TypeVar": lambda I, a, k: Opaque("TypeVar"),
        # dataclasses.field(default=x | default_factory=f): the default value of the field (evaluated once per class here; the
        # per-instance freshness of default_factory only matters for defaults that are mutated, which the subset does not track)
        "dataclasses.field": lambda I, a, k: (I.call(k["default_factory"], [], {}) if "default_factory" in k else k.get("default")),
        "copy.copy": copy_,
        "<attr>.register_buffer": register_buffer,
        "torch.tensor": torch_tensor,
        "numpy.prod": np_prod,
        "itertools.product": it_product,
        "itertools.chain": it_chain,
        "itertools.chain.from_iterable": it_chain_from,
        "itertools.accumulate": it_accumulate,
        "itertools.combinations": it_combinations,
        "heapq.merge": heapq_merge,
        "itertools.pairwise": lambda I, a, k: (lambda xs: list(zip(xs, xs[1:])))(B.iterate(I, a[0])),
        "collections.defaultdict": defaultdict,
        "collections.deque": deque,
        "contextvars.ContextVar": lambda I, a, k: CtxVar(a[0], k.get("default", CtxVar.MISSING)),
        "torch.get_default_dtype": lambda I, a, k: Token("torch.default_dtype"),
    })
    from . import tensor
    tensor.install(I)
