"""Symbolic value domain of the VC generator (engine A `pyvc`).

Python semantics assumed by the encoding (DESIGN.md 2.3):
  * int  -> mathematical Int (z3), exact since Python ints are unbounded
  * tuple/list of ints of unknown length -> SymSeq: a length term and an element function
    (length + element function, never a div/mod or string theory)
  * tuple/list/dict of known length -> the Python container itself, holding symbolic leaves
  * frozenset/set of ints with unknown content -> SymSet (z3 Array Int Bool) with an uninterpreted
    cardinality; iteration order of a set is an arbitrary permutation (only `sorted` fixes it)
  * objects -> Obj records with one Python dict of fields (allocation is concrete per path)
"""
from __future__ import annotations

import z3

IntS = z3.IntSort()
BoolS = z3.BoolSort()
RealS = z3.RealSort()
SetS = z3.ArraySort(IntS, BoolS)


def is_z3(v):
    return isinstance(v, z3.ExprRef)


def is_sym_int(v):
    return isinstance(v, z3.ArithRef) and v.is_int()


def is_intlike(v):
    return (isinstance(v, int) and not isinstance(v, bool)) or is_sym_int(v)


def is_sym_bool(v):
    return isinstance(v, z3.BoolRef)


def to_z3(v):
    if is_z3(v):
        return v
    if isinstance(v, bool):
        return z3.BoolVal(v)
    if isinstance(v, int):
        return z3.IntVal(v)
    if isinstance(v, float):
        return z3.RealVal(v)
    raise TypeError(f"cannot lift {v!r} to z3")


class SymSeq:
    """A sequence of ints of symbolic length: `length` (z3 Int or int) and `elem(i)` for 0<=i<length."""

    def __init__(self, length, elem, kind="tuple", name=None):
        self.length = length
        self.elem = elem
        self.kind = kind
        self.name = name

    def __repr__(self):
        return f"SymSeq({self.name or '?'}, len={self.length})"


class SymSet:
    """A set of ints with symbolic content."""

    def __init__(self, arr, frozen=True):
        self.arr = arr
        self.frozen = frozen

    def __repr__(self):
        return f"SymSet({self.arr})"


CARD = z3.Function("card", SetS, IntS)
EMPTY = z3.K(IntS, z3.BoolVal(False))


class Obj:
    """A heap object of a class extracted from the repo."""
    _n = 0

    def __init__(self, cls, fields=None):
        self.cls = cls
        self.fields = fields if fields is not None else {}
        Obj._n += 1
        self.oid = Obj._n

    def __repr__(self):
        return f"<{self.cls.name}#{self.oid}>"


class Opaque:
    """An object the contract does not look into: attributes are uninterpreted functions of it."""

    def __init__(self, name, attrs=None, cls=None):
        self.name = name
        self.attrs = attrs or {}
        self.cls = cls
        self.const = z3.Const(name, z3.DeclareSort("Ref"))

    def __repr__(self):
        return f"<opaque {self.name}>"


class FuncVal:
    def __init__(self, info, self_obj=None, closure=None, cls_ctx=None):
        self.info = info
        self.self_obj = self_obj
        self.closure = closure
        self.cls_ctx = cls_ctx

    def __repr__(self):
        return f"<func {self.info.qualname}>"


class ClassVal:
    def __init__(self, ci):
        self.ci = ci

    def __eq__(self, o):
        return isinstance(o, ClassVal) and o.ci is self.ci

    def __hash__(self):
        return hash(id(self.ci))

    def __repr__(self):
        return f"<class {self.ci.name}>"


class ExternalVal:
    """A name from outside the repo (torch, numpy, functools, ...)."""

    def __init__(self, dotted):
        self.dotted = dotted

    def __repr__(self):
        return f"<external {self.dotted}>"


class ModuleVal:
    def __init__(self, mi):
        self.mi = mi


class Builtin:
    def __init__(self, name, fn):
        self.name = name
        self.fn = fn

    def __repr__(self):
        return f"<builtin {self.name}>"


class PartialVal:
    def __init__(self, func, args, kwargs):
        self.func = func
        self.args = args
        self.kwargs = kwargs


class SuperVal:
    def __init__(self, obj, after_cls):
        self.obj = obj
        self.after_cls = after_cls


class ExcVal:
    def __init__(self, name, args=()):
        self.name = name
        self.args = args


class BoundBuiltin:
    def __init__(self, fn):
        self.fn = fn


class IntTensorConst:
    """torch.tensor(list of ints): only its content matters for the integer code."""

    def __init__(self, values):
        self.values = values


class SymIntSet:
    """a Python set of (symbolic) ints whose elements were made pairwise distinct on the current path"""

    def __init__(self, items):
        self.items = list(items)

    def __vf_len__(self, I):
        return len(self.items)

    def __vf_iter__(self, I):
        return list(self.items)

    def __vf_contains__(self, I, x):
        import z3 as _z3
        return _z3.Or(*[to_z3(x) == to_z3(y) for y in self.items]) if self.items else False


class EnumVal:
    def __init__(self, cls, name):
        self.cls = cls
        self.name = name

    def __eq__(self, o):
        return isinstance(o, EnumVal) and o.cls is self.cls and o.name == self.name

    def __hash__(self):
        return hash((id(self.cls), self.name))

    def __repr__(self):
        return f"{self.cls.name}.{self.name}"
