"""Engine B `tvc`: abstract tensors for the torch kernels.

A tensor is (shape, elem): a list of symbolic dimension sizes (rank is concrete) and a function from an
index tuple to the element, a z3 term over uninterpreted leaves (the kernel's input tensors).
Flattened indices are *mixed-radix* values (class MR) that remember their components, so `flatten`,
`view` and Kronecker-style products never need div/mod.  Reductions are Red placeholders: an
uninterpreted application that stands for SUM/PROD/LSE/MAX over bound index variables; two
reductions are identified when kind and sizes agree and their bodies are provably equal under a
permutation of the bound variables (re-indexing of a finite sum).

Assumed contracts of torch primitives (trusted base): every function registered in install().
Broadcast discipline (B1): two dimensions are combined only if provably equal for all sizes or one of
them is the literal 1; otherwise a side obligation fails.
Floating point is treated as real arithmetic; exp/log/... are uninterpreted elementwise functions.
"""
from __future__ import annotations

import ast
import itertools

import z3

from .values import *  # noqa
from .interp import Unsupported, FuncVal, zand
from . import builtins_ as B

RealS = z3.RealSort()


class MR:
    """mixed-radix index: comps = [(digit, size), ...], most significant first"""

    def __init__(self, comps):
        flat = []
        for d, s in comps:
            if isinstance(d, MR):
                flat.extend(d.comps)
            else:
                flat.append((d, s))
        self.comps = flat

    def linear(self):
        r = 0
        for d, s in self.comps:
            r = r * to_z3(s) + to_z3(d) if not (isinstance(r, int) and r == 0) else to_z3(d)
        return r


def lin(i):
    if isinstance(i, MR):
        return i.linear()
    return to_z3(i) if not isinstance(i, int) else i


def digits(i, size):
    return list(i.comps) if isinstance(i, MR) else [(i, size)]


def zprod(xs):
    r = 1
    for x in xs:
        r = r * x
    return r


def zeq(I, a, b):
    """provable equality of two sizes under the current path condition"""
    if isinstance(a, int) and isinstance(b, int):
        return a == b
    e = z3.simplify(to_z3(a) == to_z3(b))
    if z3.is_true(e):
        return True
    if z3.is_false(e):
        return False
    return I.path.must(e)


class Red:
    def __init__(self, kind, vars_, sizes, body, app):
        self.kind, self.vars, self.sizes, self.body, self.app = kind, vars_, sizes, body, app


def _consts(e, acc):
    if z3.is_const(e) and e.decl().kind() == z3.Z3_OP_UNINTERPRETED:
        acc[e.get_id()] = e
    for c in e.children():
        _consts(c, acc)
    return acc


def make_red(I, kind, dims, body_fn):
    """dims: list of component-size lists (one per reduced dimension); body_fn(list of indices) -> z3 term.
    A reduced dimension with components [c1..cm] is summed over m bound digits (mixed radix)."""
    reds = I.__dict__.setdefault("reds", [])
    bvars, sizes, idxs = [], [], []
    for comps in dims:
        ds = []
        for c in comps:
            v = z3.Int(I.path.fresh_name("r"))
            bvars.append(v)
            sizes.append(c)
            ds.append((v, c))
        idxs.append(MR(ds) if len(ds) > 1 else ds[0][0])
    body = to_z3(body_fn(idxs))
    rng = z3.And(*[z3.And(v >= 0, v < to_z3(s)) for v, s in zip(bvars, sizes)])
    for r in reds:
        if r.kind != kind or len(r.vars) != len(bvars):
            continue
        for perm in itertools.permutations(range(len(bvars))):
            if not all(zeq(I, sizes[perm[j]], r.sizes[j]) for j in range(len(bvars))):
                continue
            rb = z3.substitute(r.body, *[(r.vars[j], bvars[perm[j]]) for j in range(len(bvars))])
            if I.path.must(z3.Implies(rng, rb == body)):
                return r.app
    free = {}
    _consts(body, free)
    for s in sizes:
        if is_z3(s):
            _consts(s, free)
    for v in bvars:
        free.pop(v.get_id(), None)
    fs = sorted(free.values(), key=lambda c: str(c))
    # a reduction nested in another one mentions the enclosing bound variable as a free constant: the same reduction written
    # twice (code / spec) then differs only by the NAME of that constant.  Re-use the function symbol of an existing reduction
    # whose body coincides after renaming its bound-variable-like free constants (names r, r!k) to ours, position by position.
    mine = [c for c in fs if str(c).split("!")[0] == "r"]
    for r in reds:
        if r.kind != kind or len(r.vars) != len(bvars) or getattr(r, "func", None) is None:
            continue
        theirs = [c for c in r.fs if str(c).split("!")[0] == "r"]
        if not theirs or len(theirs) != len(mine) or len(r.fs) != len(fs):
            continue
        if any(str(a) != str(b) for a, b in zip([c for c in r.fs if c not in theirs], [c for c in fs if c not in mine])):
            continue
        for perm in itertools.permutations(range(len(bvars))):
            if not all(zeq(I, sizes[perm[j]], r.sizes[j]) for j in range(len(bvars))):
                continue
            sub = [(r.vars[j], bvars[perm[j]]) for j in range(len(bvars))] + list(zip(theirs, mine))
            rb = z3.substitute(r.body, *sub)
            if I.path.must(z3.Implies(rng, rb == body)):
                new_args = [dict(zip(theirs, mine)).get(c, c) if c in theirs else c for c in r.fs]
                return r.func(*new_args)
    name = I.path.fresh_name(f"red_{kind}")
    func = z3.Function(name, *[c.sort() for c in fs], body.sort()) if fs else None
    app = func(*fs) if fs else z3.Const(name, body.sort())
    rd = Red(kind, bvars, sizes, body, app)
    rd.func, rd.fs = func, fs
    reds.append(rd)
    I.__dict__.setdefault("red_used", True)
    return app


UF = {}


def uf(name, *sorts):
    key = (name, tuple(str(s) for s in sorts))
    if key not in UF:
        UF[key] = z3.Function(name, *sorts)
    return UF[key]


def elemwise(name, *args):
    args = [to_z3(a) if not is_z3(a) else a for a in args]
    args = [z3.ToReal(a) if z3.is_int(a) else a for a in args]
    return uf("f_" + name, *([RealS] * len(args)), RealS)(*args)


class Tensor:
    def __init__(self, shape, elem, dtype="float", comps=None):
        self.shape = list(shape)
        self.elem = elem
        self.dtype = dtype
        self.comps = comps if comps is not None else [[s] for s in self.shape]

    @property
    def rank(self):
        return len(self.shape)

    def __repr__(self):
        return f"Tensor{tuple(self.shape)}"

    # ------------------------------------------------------------ protocol with the interpreter
    def __vf_len__(self, I):
        return self.shape[0]

    def __vf_isinstance__(self, I, t):
        name = getattr(t, "dotted", getattr(t, "name", ""))
        if getattr(self, "np_like", False):           # a numpy array modelled by the same (shape, element function) representation
            return name.split(".")[-1] == "ndarray"
        return name.split(".")[-1] == "Tensor"

    def __vf_getattr__(self, I, name):
        if name == "shape":
            return tuple(self.shape)
        if name == "dtype":
            if getattr(self, "np_like", False):
                from .values import Opaque, ExternalVal
                return Opaque("np_dtype", {"type": ExternalVal("numpy.float32" if self.dtype == "float" else "numpy.int64")})
            from .stubs import Token
            return Token("dtype." + self.dtype)
        if name in ("device", "data"):
            return self if name == "data" else None
        if name == "real":
            return self
        if name == "T" and self.rank == 2:
            return permute(I, self, [1, 0])
        m = METHODS.get(name)
        if m is None:
            raise Unsupported(f"tensor method {name}")
        def bound(*a, **k):
            r = m(I, self, *a, **k)
            if getattr(self, "np_like", False) and isinstance(r, Tensor):
                r.np_like = True
            return r
        return BoundBuiltin(bound)

    def __vf_getitem__(self, I, k):
        return index(I, self, k if isinstance(k, tuple) else (k,))

    def __vf_getslice__(self, I, lo, hi, step):
        return index(I, self, (slice(lo, hi, step),))

    def _setitem_tensor_index(self, I, key, value):
        """t[a0, :, :, a3] = v with 1-D index tensors of one common length L (advanced indices, broadcast together) and full slices:
        for every j < L:  t[a0[j], p, q, a3[j]] = v[j, p, q]  (advanced dimensions first in v when they are not adjacent - torch's
        rule; here they always come first since v has shape (L, *sliced)).  Supported when one index tensor is the identity
        arange(L), which makes j a function of the position written."""
        key = key + [slice(None)] * (self.rank - len(key))
        adv = [(d, k) for d, k in enumerate(key) if isinstance(k, Tensor)]
        if any(not (isinstance(k, (Tensor, slice))) for k in key) or any(isinstance(k, slice) and (k.start, k.stop, k.step) != (None, None, None) for k in key):
            raise Unsupported("tensor item assignment: only full slices and index tensors")
        if any(k.rank != 1 for _, k in adv):
            raise Unsupported("tensor item assignment with index tensors of rank other than 1")
        L = adv[0][1].shape[0]
        for _, k in adv[1:]:
            I.require("setitem.index_lengths_equal", to_z3(k.shape[0]) == to_z3(L))
        ident = None
        kk = z3.Int(I.path.fresh_name("k_id"))
        for d, k in adv:
            if I.path.must(z3.Implies(z3.And(kk >= 0, kk < to_z3(L)), to_z3(k.elem([kk])) == kk)):
                ident = d
                break
        if ident is None:
            raise Unsupported("tensor item assignment without an identity index tensor")
        for d, k in adv:
            q = z3.Int(I.path.fresh_name("k_rng"))
            I.require("setitem.index_in_range", z3.ForAll([q], z3.Implies(z3.And(q >= 0, q < to_z3(L)), z3.And(to_z3(k.elem([q])) >= 0, to_z3(k.elem([q])) < to_z3(self.shape[d])))))
        val = as_tensor(value)
        sliced = [d for d, k in enumerate(key) if isinstance(k, slice)]
        if val.rank != 1 + len(sliced):
            raise Unsupported("tensor item assignment: value rank")
        old = self.elem

        def elem(idx, old=old):
            j = to_z3(lin(idx[ident]))
            hit = z3.And(j >= 0, j < to_z3(L), *[to_z3(lin(idx[d])) == to_z3(k.elem([j])) for d, k in adv if d != ident])
            new = val.elem([j] + [idx[d] for d in sliced])
            o = old(idx)
            return z3.If(hit, _real(new) if not z3.is_bool(to_z3(o) if not is_z3(o) else o) else new, _real(o) if not z3.is_bool(to_z3(o) if not is_z3(o) else o) else o)
        self.elem = elem

    def __vf_setitem__(self, I, key, value):
        """t[i0, i1, ...] = v with one integer sequence (or int) per leading dimension: an in-place update of THIS tensor
        object (every holder of the object sees it): entry idx becomes v where idx matches one of the listed positions"""
        key = list(key) if isinstance(key, tuple) else [key]
        if len(key) > self.rank:
            I.raise_("IndexError", "too many indices")
        if any(isinstance(k, Tensor) for k in key):
            return self._setitem_tensor_index(I, key, value)
        cols = []
        for k in key:
            if isinstance(k, IntTensorConst):
                k = k.values
            if is_intlike(k):
                cols.append([k])
            elif isinstance(k, (list, tuple)):
                cols.append(list(k))
            elif isinstance(k, SymSeq) and B.concrete_len(I, k.length) is not None:
                cols.append([k.elem(j) for j in range(B.concrete_len(I, k.length))])
            else:
                raise Unsupported("tensor item assignment with a non-enumerable index")
        n = max(len(c) for c in cols)
        cols = [c * n if len(c) == 1 else c for c in cols]
        if any(len(c) != n for c in cols):
            I.raise_("IndexError", "shape mismatch in index assignment")
        for c, size in zip(cols, self.shape):
            for x in c:
                I.require("setitem.index_in_range", z3.And(to_z3(x) >= 0, to_z3(x) < to_z3(size)))
        old = self.elem
        val = as_tensor(value) if isinstance(value, Tensor) else None

        def elem(idx, old=old):
            hit = z3.Or(*[z3.And(*[to_z3(lin(idx[d])) == to_z3(cols[d][j]) for d in range(len(cols))]) for j in range(n)]) if n else z3.BoolVal(False)
            new = value if val is None else val.elem([])
            new = to_z3(new) if not is_z3(new) else new
            o = old(idx)
            o = to_z3(o) if not is_z3(o) else o
            if z3.is_bool(o) != z3.is_bool(new):
                new = z3.BoolVal(bool(value)) if z3.is_bool(o) and isinstance(value, (bool, int)) else new
            return z3.If(hit, new, o)
        self.elem = elem

    def __vf_binop__(self, I, op, a, b):
        t = type(op)
        name = {ast.Add: "add", ast.Sub: "sub", ast.Mult: "mul", ast.Div: "div", ast.Pow: "pow"}.get(t)
        if name is None:
            raise Unsupported(f"tensor operator {t.__name__}")
        return binary(I, name, a, b)

    def __vf_compare__(self, I, op, a, b):
        t = type(op)
        if t in (ast.Is, ast.IsNot):                     # identity of tensor objects (`x is None`, `x is y`)
            return (a is b) if t is ast.Is else (a is not b)
        name = {ast.Lt: "lt", ast.LtE: "le", ast.Gt: "gt", ast.GtE: "ge", ast.Eq: "eq", ast.NotEq: "ne"}.get(t)
        if name is None:
            raise Unsupported("tensor comparison")
        return binary(I, name, a, b)


def leaf(I, name, shape, dtype="float"):
    sort = {"float": RealS, "long": IntS, "bool": BoolS, "complex": RealS}[dtype]
    f = z3.Function(I.path.fresh_name(name), *([IntS] * max(len(shape), 1)), sort)
    rank = len(shape)

    def elem(idx):
        if rank == 0:
            return f(z3.IntVal(0))
        return f(*[to_z3(lin(i)) for i in idx])
    return Tensor(shape, elem, dtype)


def const_tensor(shape, value, dtype="float"):
    return Tensor(shape, lambda idx: value, dtype)


def ndim(d, rank, I=None, what="dim"):
    if not isinstance(d, int):
        d = z3.simplify(to_z3(d))
        if z3.is_int_value(d):
            d = d.as_long()
        else:
            raise Unsupported("symbolic dim argument")
    if not -rank <= d < rank:
        if I is not None:
            I.raise_("IndexError", what)
    return d + rank if d < 0 else d


# ---------------------------------------------------------------- layout primitives
def unsqueeze(I, x, dim):
    d = ndim(dim, x.rank + 1, I)
    return Tensor(x.shape[:d] + [1] + x.shape[d:], lambda idx: x.elem(idx[:d] + idx[d + 1:]), x.dtype,
                  x.comps[:d] + [[1]] + x.comps[d:])


def squeeze(I, x, dim=None):
    if dim is None:
        raise Unsupported("squeeze without dim")
    d = ndim(dim, x.rank, I)
    if not zeq(I, x.shape[d], 1):
        return x
    return Tensor(x.shape[:d] + x.shape[d + 1:], lambda idx: x.elem(idx[:d] + [0] + idx[d:]), x.dtype,
                  x.comps[:d] + x.comps[d + 1:])


def permute(I, x, *perm):
    if len(perm) == 1 and isinstance(perm[0], (list, tuple)):
        perm = perm[0]
    perm = [ndim(p, x.rank, I) for p in perm]
    if sorted(perm) != list(range(x.rank)):
        I.raise_("RuntimeError", "permute")

    def elem(idx):
        old = [None] * x.rank
        for newpos, oldpos in enumerate(perm):
            old[oldpos] = idx[newpos]
        return x.elem(old)
    return Tensor([x.shape[p] for p in perm], elem, x.dtype, [x.comps[p] for p in perm])


def transpose(I, x, d0, d1):
    d0, d1 = ndim(d0, x.rank, I), ndim(d1, x.rank, I)
    perm = list(range(x.rank))
    perm[d0], perm[d1] = perm[d1], perm[d0]
    return permute(I, x, perm)


def movedim(I, x, src, dst):
    src, dst = ndim(src, x.rank, I), ndim(dst, x.rank, I)
    order = [i for i in range(x.rank) if i != src]
    order.insert(dst, src)
    return permute(I, x, order)


def flatten(I, x, start_dim=0, end_dim=-1):
    s, e = ndim(start_dim, x.rank, I), ndim(end_dim, x.rank, I)
    if s > e:
        I.raise_("RuntimeError", "flatten")
    if s == e:
        return x
    sizes = x.shape[s:e + 1]
    comps = [c for cs in x.comps[s:e + 1] for c in cs]

    def elem(idx):
        parts = split_index(I, idx[s], sizes)
        return x.elem(idx[:s] + parts + idx[s + 1:])
    return Tensor(x.shape[:s] + [zprod(sizes)] + x.shape[e + 1:], elem, x.dtype, x.comps[:s] + [comps] + x.comps[e + 1:])


def split_index(I, i, sizes):
    """split a (mixed-radix) index of a merged dimension into one index per original dimension"""
    ds = digits(i, zprod(sizes))
    out, p = [], 0
    for sz in sizes:
        grp, acc = [], 1
        while not zeq(I, acc, sz):
            if p >= len(ds):
                grp = None
                break
            grp.append(ds[p])
            acc = acc * ds[p][1]
            p += 1
        if grp is None:
            break
        out.append(MR(grp) if len(grp) > 1 else (grp[0][0] if grp else 0))
    if len(out) == len(sizes) and p == len(ds):
        return out
    # fallback: arithmetic decomposition (nonlinear; the solver may not decide it)
    I.path.notes.add("div/mod index decomposition used (index given without mixed-radix structure)")
    li = to_z3(lin(i))
    out = []
    for j, sz in enumerate(sizes):
        stride = zprod(sizes[j + 1:])
        q = li / to_z3(stride) if not (isinstance(stride, int) and stride == 1) else li
        out.append(q % to_z3(sz) if j > 0 else q)
    return out


def view(I, x, *shape):
    if len(shape) == 1 and isinstance(shape[0], (list, tuple)):
        shape = tuple(shape[0])
    shape = list(shape)
    total = zprod(x.shape)
    neg = [i for i, s in enumerate(shape) if isinstance(s, int) and s == -1]
    if len(neg) > 1:
        I.raise_("RuntimeError", "view")
    if neg:
        rest = zprod([s for i, s in enumerate(shape) if i != neg[0]])
        flat = [c for cs in x.comps for c in cs]
        cands = [zprod(x.shape[:j]) for j in range(x.rank + 1)] + \
            [zprod(flat[i:j]) for i in range(len(flat)) for j in range(i + 1, len(flat) + 1)]
        for c in cands:
            if zeq(I, c * rest, total):
                shape[neg[0]] = c
                break
        else:
            raise Unsupported("cannot infer -1 in view")
    I.require("view.numel", to_z3(zprod(shape)) == to_z3(total))
    old_comps = [c for cs in x.comps for c in cs]
    # metadata: components of the new dimensions (used when a later reduction runs over them)
    new_comps, p, ok = [], 0, True
    for t in shape:
        grp, acc = [], 1
        while not zeq(I, acc, t):
            if p >= len(old_comps):
                ok = False
                break
            grp.append(old_comps[p])
            acc = acc * old_comps[p]
            p += 1
        if not ok:
            break
        new_comps.append(grp if grp else [1])
    if not ok or p != len(old_comps):
        new_comps = [[t] for t in shape]

    def elem(idx):
        ds = []
        for i, t in zip(idx, shape):
            ds.extend(digits(i, t))
        old, p, aligned = [], 0, True
        for sz in x.shape:
            grp, acc = [], 1
            while not zeq(I, acc, sz):
                if p >= len(ds):
                    aligned = False
                    break
                grp.append(ds[p])
                acc = acc * ds[p][1]
                p += 1
            if not aligned:
                break
            old.append(MR(grp) if len(grp) > 1 else (grp[0][0] if grp else 0))
        if not aligned:
            # the index components do not line up with the source dimensions: decompose the row-major
            # linear index arithmetically (nonlinear div/mod; may be left undecided by the solver)
            I.path.notes.add("div/mod index decomposition used in view (components do not align)")
            L = to_z3(MR(ds).linear())
            old = []
            for j, sz in enumerate(x.shape):
                stride = zprod(x.shape[j + 1:])
                q = L / to_z3(stride) if not (isinstance(stride, int) and stride == 1) else L
                old.append(q % to_z3(sz) if j > 0 else q)
        return x.elem(old)
    return Tensor(shape, elem, x.dtype, new_comps)


def expand(I, x, *shape):
    if len(shape) == 1 and isinstance(shape[0], (list, tuple)):
        shape = tuple(shape[0])
    shape = list(shape)
    off = len(shape) - x.rank
    out_shape = []
    for j, t in enumerate(shape):
        if j < off:
            out_shape.append(t)
            continue
        s = x.shape[j - off]
        if isinstance(t, int) and t == -1:
            out_shape.append(s)
        elif isinstance(s, int) and s == 1:
            out_shape.append(t)
        else:
            I.require("expand.size", to_z3(s) == to_z3(t))
            out_shape.append(s)

    def elem(idx):
        src = []
        for j in range(x.rank):
            s = x.shape[j]
            src.append(0 if (isinstance(s, int) and s == 1) else idx[j + off])
        return x.elem(src)
    return Tensor(out_shape, elem, x.dtype)


def broadcast_shapes(I, shapes, what="broadcast"):
    rank = max(len(s) for s in shapes)
    out = []
    for j in range(rank):
        cur = 1
        for s in shapes:
            k = j - (rank - len(s))
            if k < 0:
                continue
            d = s[k]
            if isinstance(d, int) and d == 1:
                continue
            if isinstance(cur, int) and cur == 1:
                cur = d
            else:
                # broadcast discipline: sizes must be provably equal (no accidental broadcast)
                I.require(f"{what}.dims_equal", to_z3(cur) == to_z3(d))
        out.append(cur)
    return out


def bidx(x, idx, rank):
    off = rank - x.rank
    return [0 if (isinstance(x.shape[j], int) and x.shape[j] == 1) else idx[j + off] for j in range(x.rank)]


def as_tensor(v):
    if isinstance(v, Tensor):
        return v
    if isinstance(v, (int, float)) or is_z3(v):
        dt = "long" if is_intlike(v) else "float"
        return Tensor([], lambda idx: v, dt)
    raise Unsupported(f"cannot use {type(v).__name__} as a tensor")


_ARITH = {"add": lambda a, b: a + b, "sub": lambda a, b: a - b, "mul": lambda a, b: a * b,
          "lt": lambda a, b: a < b, "le": lambda a, b: a <= b, "gt": lambda a, b: a > b, "ge": lambda a, b: a >= b,
          "eq": lambda a, b: a == b, "ne": lambda a, b: a != b}


def _num(v):
    v = to_z3(v) if not is_z3(v) else v
    return v


def binary(I, name, a, b):
    a, b = as_tensor(a), as_tensor(b)
    shape = broadcast_shapes(I, [a.shape, b.shape], name)
    rank = len(shape)
    cmp_ = name in ("lt", "le", "gt", "ge", "eq", "ne")
    dtype = "bool" if cmp_ else ("float" if "float" in (a.dtype, b.dtype) or name == "div" else a.dtype)
    if "complex" in (a.dtype, b.dtype) and not cmp_:
        dtype = "complex"

    def elem(idx):
        x, y = _num(a.elem(bidx(a, idx, rank))), _num(b.elem(bidx(b, idx, rank)))
        if name in _ARITH:
            if z3.is_int(x) != z3.is_int(y):
                x = z3.ToReal(x) if z3.is_int(x) else x
                y = z3.ToReal(y) if z3.is_int(y) else y
            return _ARITH[name](x, y)
        if name == "div":
            x = z3.ToReal(x) if z3.is_int(x) else x
            y = z3.ToReal(y) if z3.is_int(y) else y
            return x / y
        return elemwise(name, x, y)
    comps = None
    if a.rank == rank and all(isinstance(s, int) or True for s in shape):
        comps = [ca if len(ca) >= len(cb) else cb for ca, cb in zip(
            ([[1]] * (rank - a.rank)) + a.comps, ([[1]] * (rank - b.rank)) + b.comps)]
        comps = [c if not (len(c) == 1 and isinstance(c[0], int) and c[0] == 1) else [s] for c, s in zip(comps, shape)]
    return Tensor(shape, elem, dtype, comps)


def unary(name):
    def f(I, x, *a, **k):
        x = as_tensor(x)
        return Tensor(x.shape, lambda idx: elemwise(name, x.elem(idx)), x.dtype if x.dtype != "long" else "float", x.comps)
    return f


def square(I, x):
    x = as_tensor(x)

    def elem(idx):
        v = _num(x.elem(idx))
        return v * v
    return Tensor(x.shape, elem, x.dtype, x.comps)


def clamp(I, x, min=None, max=None):
    def elem(idx):
        v = _num(x.elem(idx))
        if min is not None:
            v = z3.If(v < to_z3(min), _real(min), v)
        if max is not None:
            v = z3.If(v > to_z3(max), _real(max), v)
        return v
    return Tensor(x.shape, elem, x.dtype, x.comps)


def _real(v):
    v = to_z3(v)
    return z3.ToReal(v) if z3.is_int(v) else v


def reduce_(kind):
    def f(I, x, dim=None, keepdim=False, **kw):
        if dim is None:
            raise Unsupported("full reduction")
        d = ndim(dim, x.rank, I)

        def elem(idx):
            pre = idx[:d]
            post = idx[d + 1:] if keepdim else idx[d:]
            return make_red(I, kind, [x.comps[d]], lambda r: x.elem(pre + [r[0]] + post))
        shape = x.shape[:d] + ([1] if keepdim else []) + x.shape[d + 1:]
        comps = x.comps[:d] + ([[1]] if keepdim else []) + x.comps[d + 1:]
        return Tensor(shape, elem, "float" if kind != "sum" or x.dtype != "long" else "long", comps)
    return f


def softmax(log):
    def f(I, x, dim=None, **kw):
        d = ndim(dim, x.rank, I)

        def elem(idx):
            num = elemwise("exp", x.elem(idx))
            den = make_red(I, "sum", [x.comps[d]], lambda r: elemwise("exp", x.elem(idx[:d] + [r[0]] + idx[d + 1:])))
            if log:
                return _real(x.elem(idx)) - elemwise("log", den)
            return num / den
        return Tensor(x.shape, elem, "float", x.comps)
    return f


def matmul(I, a, b):
    if a.rank < 2 or b.rank < 2:
        raise Unsupported("matmul of vectors")
    I.require("matmul.inner", to_z3(a.shape[-1]) == to_z3(b.shape[-2]))
    batch = broadcast_shapes(I, [a.shape[:-2], b.shape[:-2]], "matmul.batch")
    nb = len(batch)
    ab, bb = Tensor(a.shape[:-2], None), Tensor(b.shape[:-2], None)

    def elem(idx):
        bi = idx[:nb]
        ia, ib = bidx(ab, bi, nb), bidx(bb, bi, nb)
        comps = a.comps[-1] if len(a.comps[-1]) >= len(b.comps[-2]) else b.comps[-2]
        return make_red(I, "sum", [comps], lambda r: _num(a.elem(ia + [idx[nb], r[0]])) * _num(b.elem(ib + [r[0], idx[nb + 1]])))
    return Tensor(batch + [a.shape[-2], b.shape[-1]], elem, a.dtype, None)


def einsum(I, *args):
    if isinstance(args[0], str):
        eq = args[0].replace(" ", "")
        ops = list(args[1:])
        if len(ops) == 1 and isinstance(ops[0], (list, tuple)):
            ops = list(ops[0])
        lhs, rhs = eq.split("->")
        in_labels = [list(s) for s in lhs.split(",")]
        out_labels = list(rhs)
    else:
        ops, in_labels = [], []
        a = list(args)
        while len(a) >= 2:
            ops.append(a.pop(0))
            in_labels.append(list(B.iterate(I, a.pop(0))))
        out_labels = list(B.iterate(I, a.pop(0)))
    if len(ops) != len(in_labels):
        I.raise_("RuntimeError", "einsum operands")
    size, comps = {}, {}
    for t, labs in zip(ops, in_labels):
        if len(labs) != t.rank:
            I.raise_("RuntimeError", "einsum rank")
        for j, l in enumerate(labs):
            if l in size:
                I.require("einsum.dims_equal", to_z3(size[l]) == to_z3(t.shape[j]))
                if len(t.comps[j]) > len(comps[l]):
                    comps[l] = t.comps[j]
            else:
                size[l], comps[l] = t.shape[j], t.comps[j]
    contracted = [l for l in size if l not in out_labels]

    def elem(idx):
        env = dict(zip(out_labels, idx))

        def body(r):
            e2 = dict(env)
            e2.update(zip(contracted, r))
            p = None
            for t, labs in zip(ops, in_labels):
                v = _num(t.elem([e2[l] for l in labs]))
                p = v if p is None else p * v
            return p
        if not contracted:
            return body([])
        return make_red(I, "sum", [comps[l] for l in contracted], body)
    dt = "complex" if any(t.dtype == "complex" for t in ops) else "float"
    return Tensor([size[l] for l in out_labels], elem, dt, [comps[l] for l in out_labels])


def where(I, c, a, b):
    c, a, b = as_tensor(c), as_tensor(a), as_tensor(b)
    shape = broadcast_shapes(I, [c.shape, a.shape, b.shape], "where")
    rank = len(shape)

    def elem(idx):
        return z3.If(c.elem(bidx(c, idx, rank)), _real(a.elem(bidx(a, idx, rank))), _real(b.elem(bidx(b, idx, rank))))
    return Tensor(shape, elem, a.dtype)


# ---------------------------------------------------------------- indexing
def index(I, x, key):
    key = list(key)
    if any(k is Ellipsis for k in key):
        e = key.index(Ellipsis)
        n_real = sum(1 for k in key if k is not None and k is not Ellipsis)
        key = key[:e] + [slice(None)] * (x.rank - n_real) + key[e + 1:]
    n_real = sum(1 for k in key if k is not None)
    if n_real > x.rank:
        I.raise_("IndexError", "too many indices")
    key = key + [slice(None)] * (x.rank - n_real)
    adv = [(p, k) for p, k in enumerate(key) if isinstance(k, (Tensor, IntTensorConst, SymSeq, list))]
    adv_t = []
    for p, k in adv:
        if isinstance(k, IntTensorConst):
            k = k.values
        if isinstance(k, (SymSeq, list, tuple)):
            s = B.as_symseq(k) if not isinstance(k, SymSeq) else k
            if isinstance(s, B.MRSeq):
                k = Tensor([s.length], lambda idx, s=s: s.elem(idx[0]), "long", [list(s.sizes)])
            else:
                k = Tensor([s.length], lambda idx, s=s: s.elem(lin(idx[0])), "long")
        adv_t.append((p, k))
    adv_shape = broadcast_shapes(I, [t.shape for _, t in adv_t], "index.adv") if adv_t else []
    adjacent = bool(adv_t) and all(adv_t[i + 1][0] == adv_t[i][0] + 1 for i in range(len(adv_t) - 1))
    # plan: list of ('new'|'slice'|'int'|'adv', ...) per key entry, consuming source dims
    plan, src = [], 0
    out_shape, out_comps = [], []
    adv_pos_in_out = None
    for p, k in enumerate(key):
        if k is None:
            plan.append(("new",))
            out_shape.append(1)
            out_comps.append([1])
            continue
        d = src
        src += 1
        if any(p == q for q, _ in adv_t):
            if adv_pos_in_out is None:
                adv_pos_in_out = len(out_shape)
                if adjacent:
                    out_shape.extend(adv_shape)
                    out_comps.extend([[s] for s in adv_shape])
            plan.append(("adv", d, [t for q, t in adv_t if q == p][0]))
            continue
        if isinstance(k, slice):
            if k.step not in (None, 1):
                raise Unsupported("tensor slice step")
            n = x.shape[d]
            if k.start is None and k.stop is None:
                plan.append(("slice", d, 0))
                out_shape.append(n)
                out_comps.append(x.comps[d])
            else:
                lo = _clampidx(k.start, n, 0)
                hi = _clampidx(k.stop, n, n)
                ln = hi - lo
                if is_z3(ln):
                    ln = z3.simplify(z3.If(ln > 0, ln, 0))
                    if z3.is_int_value(ln):
                        ln = ln.as_long()
                else:
                    ln = max(ln, 0)
                plan.append(("slice", d, lo))
                out_shape.append(ln)
                out_comps.append([ln])
            continue
        if is_intlike(k) or isinstance(k, bool):
            n = x.shape[d]
            kk = B.norm_index(I, k, n, "tensor index")
            plan.append(("int", d, kk))
            continue
        raise Unsupported(f"tensor index {type(k).__name__}")
    if adv_t and not adjacent:
        out_shape = adv_shape + out_shape
        out_comps = [[s] for s in adv_shape] + out_comps
        adv_pos_in_out = 0
    nadv = len(adv_shape)

    def elem(idx):
        idx = list(idx)
        if adv_t:
            aidx = idx[adv_pos_in_out:adv_pos_in_out + nadv]
            rest = idx[:adv_pos_in_out] + idx[adv_pos_in_out + nadv:]
        else:
            aidx, rest = [], idx
        srcidx = [None] * x.rank
        q = 0
        for st in plan:
            if st[0] == "new":
                q += 1
            elif st[0] == "slice":
                i = rest[q]
                q += 1
                srcidx[st[1]] = i if (isinstance(st[2], int) and st[2] == 0) else lin(i) + st[2]
            elif st[0] == "int":
                srcidx[st[1]] = st[2]
            else:
                t = st[2]
                srcidx[st[1]] = t.elem(bidx(t, aidx, nadv))
        return x.elem(srcidx)
    return Tensor(out_shape, elem, x.dtype, out_comps)


def _clampidx(v, n, default):
    if v is None:
        return default
    if isinstance(v, int) and isinstance(n, int):
        return max(v + n, 0) if v < 0 else min(v, n)
    if isinstance(v, int):
        if v < 0:
            return z3.If(to_z3(n) + v > 0, to_z3(n) + v, 0)
        return z3.If(to_z3(n) < v, to_z3(n), z3.IntVal(v))
    raise Unsupported("symbolic slice bound on a tensor")


# ---------------------------------------------------------------- vmap, kron, diag
class VmapVal:
    def __init__(self, f, in_dims=0):
        self.f, self.in_dims = f, in_dims


def call_vmap(I, vm, args):
    f = vm.f
    d = vm.in_dims
    if isinstance(f, ExternalVal) and f.dotted == "torch.kron":
        a, b = args
        if a.rank != b.rank:
            raise Unsupported("kron of different ranks")
        shape = [a.shape[0]] + [a.shape[j] * b.shape[j] for j in range(1, a.rank)]
        comps = [a.comps[0]] + [[a.shape[j], b.shape[j]] for j in range(1, a.rank)]
        I.require("vmap.batch_equal", to_z3(a.shape[0]) == to_z3(b.shape[0]))

        def elem(idx):
            ia, ib = [idx[0]], [idx[0]]
            for j in range(1, a.rank):
                p = split_index(I, idx[j], [a.shape[j], b.shape[j]])
                ia.append(p[0])
                ib.append(p[1])
            return _num(a.elem(ia)) * _num(b.elem(ib))
        return Tensor(shape, elem, a.dtype, comps)
    x = args[0]
    d = ndim(d, x.rank, I)

    def slice_at(b):
        return Tensor(x.shape[:d] + x.shape[d + 1:], lambda idx: x.elem(idx[:d] + [b] + idx[d:]), x.dtype,
                      x.comps[:d] + x.comps[d + 1:])

    def apply(t):
        if isinstance(f, VmapVal):
            return call_vmap(I, f, [t])
        if isinstance(f, ExternalVal) and f.dotted == "torch.diag":
            if t.rank != 1:
                raise Unsupported("diag of non-vector")
            n = t.shape[0]
            return Tensor([n, n], lambda idx: z3.If(to_z3(lin(idx[0])) == to_z3(lin(idx[1])), _real(t.elem([idx[0]])), z3.RealVal(0)), t.dtype)
        return I.call(f, [t], {})
    probe = apply(slice_at(z3.Int(I.path.fresh_name("vb"))))
    return Tensor([x.shape[d]] + probe.shape, lambda idx: apply(slice_at(idx[0])).elem(idx[1:]), probe.dtype,
                  [x.comps[d]] + probe.comps)


# ---------------------------------------------------------------- registration
def _m(fn):
    return fn


METHODS = {
    "unsqueeze": unsqueeze, "squeeze": squeeze, "permute": permute, "transpose": transpose, "movedim": movedim,
    "flatten": flatten, "view": view, "reshape": view, "expand": expand,
    "sum": reduce_("sum"), "prod": reduce_("prod"), "logsumexp": reduce_("lse"), "amax": reduce_("max"),
    "is_complex": lambda I, x: x.dtype == "complex", "is_floating_point": lambda I, x: x.dtype == "float",
    "long": lambda I, x: Tensor(x.shape, (lambda idx, x=x: _to_int(x.elem(idx))), "long", x.comps), "to": lambda I, x, *a, **k: x,
    "dim": lambda I, x: x.rank, "size": lambda I, x, d=None: tuple(x.shape) if d is None else x.shape[ndim(d, x.rank, I)],
    "exp": unary("exp"), "log": unary("log"), "conj": unary("conj"), "contiguous": lambda I, x: x, "clone": lambda I, x: x,
    "detach": lambda I, x: x, "cpu": lambda I, x: x, "float": lambda I, x: Tensor(x.shape, x.elem, "float", x.comps),
    "numel": lambda I, x: zprod(x.shape),
    "copy_": lambda I, x, src: _copy_into(I, x, src),
    "new_zeros": lambda I, x, *shape, **k: Tensor(list(shape[0]) if len(shape) == 1 and isinstance(shape[0], (list, tuple)) else list(shape),
                                                  lambda idx: z3.RealVal(0), x.dtype),
    "unbind": lambda I, x, dim=0: [index(I, x, tuple([slice(None)] * ndim(dim, x.rank, I) + [j])) for j in range(_concrete(x.shape[ndim(dim, x.rank, I)]))],
}


def _copy_into(I, x, src):
    """Tensor.copy_(src) (assumed contract): src must broadcast to the shape of the target; the write is RECORDED (target,
    broadcast source) in I.writes, the abstract tensors themselves are immutable values"""
    src = as_tensor(src)
    if src.rank > x.rank:
        I.raise_("RuntimeError", "copy_: source has more dimensions than the target")
    off = x.rank - src.rank
    for j in range(src.rank):
        s = src.shape[j]
        if not (isinstance(s, int) and s == 1):
            I.require("copy_.dims_equal", to_z3(s) == to_z3(x.shape[j + off]))
    b = Tensor(x.shape, lambda idx: src.elem(bidx(src, idx, x.rank)), x.dtype)
    I.__dict__.setdefault("writes", []).append((x, b))
    return x


def _to_int(v):
    """Tensor.long(): truncation of a real entry (an integer-valued entry is unchanged)"""
    v = to_z3(v) if not is_z3(v) else v
    return z3.ToInt(v) if z3.is_real(v) else v


def _concrete(n):
    if isinstance(n, int):
        return n
    t = z3.simplify(to_z3(n))
    if z3.is_int_value(t):
        return t.as_long()
    raise Unsupported("unbind along a dimension of symbolic size")


def install(I):
    ext = I.externals
    I.side_clauses = []

    def require(label, f):
        if isinstance(f, bool):
            if f:
                return
            f = z3.BoolVal(False)
        f = z3.simplify(f)
        if z3.is_true(f):
            return
        I.side_clauses.append((label, f))
    I.require = require

    def wrap(fn):
        return lambda I, args, kwargs: fn(I, *args, **kwargs)

    for name, fn in {
        "unsqueeze": unsqueeze, "squeeze": squeeze, "permute": permute, "transpose": transpose, "movedim": movedim,
        "flatten": flatten, "reshape": view, "sum": reduce_("sum"), "prod": reduce_("prod"),
        "logsumexp": reduce_("lse"), "amax": reduce_("max"), "softmax": softmax(False), "log_softmax": softmax(True),
        "exp": unary("exp"), "log": unary("log"), "sqrt": unary("sqrt"), "sigmoid": unary("sigmoid"),
        "conj": unary("conj"), "square": square, "clamp": clamp, "matmul": matmul, "einsum": einsum, "where": where,
        "add": lambda I, a, b: binary(I, "add", a, b), "mul": lambda I, a, b: binary(I, "mul", a, b),
        "logaddexp": lambda I, a, b: binary(I, "logaddexp", a, b),
        "index_select": lambda I, x, dim, idx: index(I, x, tuple([slice(None)] * ndim(dim, x.rank, I) + [idx])),
        "is_complex": lambda I, x: x.dtype == "complex",
    }.items():
        ext["torch." + name] = wrap(fn)
    ext["torch.reciprocal"] = lambda I, a, k: binary(I, "div", 1.0, a[0])
    ext["torch.nn.functional.softplus"] = wrap(unary("softplus"))
    ext["torch.vmap"] = lambda I, a, k: VmapVal(a[0], k.get("in_dims", 0))
    ext["torch.zeros_like"] = lambda I, a, k: Tensor(a[0].shape, lambda idx: z3.RealVal(0), a[0].dtype, a[0].comps)
    ext["torch.ones_like"] = lambda I, a, k: Tensor(a[0].shape, lambda idx: z3.RealVal(1), a[0].dtype, a[0].comps)

    def zeros(I, a, k):
        shape = k.get("size", a[0] if a else None)
        if len(a) > 1:
            shape = a
        dt = str(getattr(k.get("dtype"), "dotted", ""))
        if dt.endswith("bool"):
            return Tensor(list(B.iterate(I, shape)), lambda idx: z3.BoolVal(False), "bool")
        if "int" in dt or dt.endswith("long"):
            return Tensor(list(B.iterate(I, shape)), lambda idx: z3.IntVal(0), "long")
        return Tensor(list(B.iterate(I, shape)), lambda idx: z3.RealVal(0), "float")
    ext["torch.zeros"] = zeros

    class Scalar0:
        """a 0-dimensional tensor holding one (symbolic) value: only .item() is observable"""

        def __init__(self, v):
            self.v = v

        def __vf_getattr__(self, I_, attr):
            if attr == "item":
                return BoundBuiltin(lambda: self.v)
            raise Unsupported(f"0-dim tensor .{attr}")

        def __vf_truth__(self, I_):
            return I_.truth(self.v)

    def einops_axes(side):
        """'a (b c) d' -> [['a'], ['b', 'c'], ['d']]"""
        out, cur, depth = [], None, 0
        for tok in side.replace("(", " ( ").replace(")", " ) ").split():
            if tok == "(":
                cur = []
            elif tok == ")":
                out.append(cur)
                cur = None
            elif cur is not None:
                cur.append(tok)
            else:
                out.append([tok])
        return out

    def rearrange(I, a, k):
        """einops.rearrange / repeat (documented contract) for patterns whose left side has no groups: the axes are permuted into
        the order of the right side, new axes (given by keyword) are broadcast, groups are flattened (first name major)"""
        x, pattern = a[0], a[1]
        lhs, rhs = [s.strip() for s in pattern.split("->")]
        L, R = einops_axes(lhs), einops_axes(rhs)
        if any(len(g) != 1 for g in L) or len(L) != x.rank:
            raise Unsupported("einops pattern with groups on the left side")
        names = [g[0] for g in L]
        flat = [n for g in R for n in g]
        new = [n for n in flat if n not in names]
        if any(n not in k for n in new) or sorted(n for n in flat if n in names) != sorted(names):
            raise Unsupported("einops pattern not understood")
        t = x
        for n in new:  # append the new axes, then permute
            t = unsqueeze(I, t, t.rank)
            t = expand(I, t, *(list(t.shape[:-1]) + [k[n]]))
        order = names + new
        t = permute(I, t, [order.index(n) for n in flat])
        pos = 0
        for g in R:
            if len(g) > 1:
                t = flatten(I, t, pos, pos + len(g) - 1)
            pos += 1
        return t
    ext["einops.rearrange"] = rearrange
    ext["einops.repeat"] = rearrange

    def gather(I, a, k):
        x, dim, idx = a[0], k.get("dim", a[1] if len(a) > 1 else None), k.get("index", a[2] if len(a) > 2 else None)
        d = ndim(dim, x.rank, I)
        if idx.rank != x.rank:
            I.raise_("RuntimeError", "gather: index rank")
        for j in range(x.rank):
            if j != d:
                I.require("gather.index_within_source", to_z3(idx.shape[j]) <= to_z3(x.shape[j]))
        return Tensor(idx.shape, lambda ix: x.elem(ix[:d] + [idx.elem(ix)] + ix[d + 1:]), x.dtype, idx.comps)
    ext["torch.gather"] = gather

    class CategoricalDist:
        """torch.distributions.Categorical(probs | logits of shape (*batch, M)).sample(size): integers in [0, M) of shape
        (*size, *batch) (assumed contract); the draw itself is a fresh uninterpreted leaf"""

        def __init__(self, p, kind="probs"):
            self.p, self.kind = p, kind

        def __vf_getattr__(self, I_, attr):
            if attr == "sample":
                def sample(size=()):
                    dims = list(B.iterate(I, size)) + list(self.p.shape[:-1])
                    t = leaf(I, "categorical_draw", dims, "long")
                    ks = [z3.Int(I.path.fresh_name("k_cd")) for _ in dims]
                    I.path.assume(z3.ForAll(ks, z3.And(t.elem(ks) >= 0, t.elem(ks) < to_z3(self.p.shape[-1])), patterns=[t.elem(ks)]))
                    I.__dict__.setdefault("categorical_draws", []).append((t, self.p, self.kind))
                    return t
                return BoundBuiltin(sample)
            raise Unsupported(f"Categorical.{attr}")
    ext["torch.distributions.Categorical"] = lambda I, a, k: (CategoricalDist(k["logits"], "logits") if k.get("logits") is not None else CategoricalDist(k.get("probs", a[0] if a else None), "probs"))
    ext["torch.allclose"] = lambda I, a, k: z3.Bool(I.path.fresh_name("allclose"))
    ext["torch.ones"] = lambda I, a, k: Tensor(list(B.iterate(I, a[0])) if a and not is_intlike(a[0]) else [x for x in a], lambda idx: z3.RealVal(1), "float")

    def any_(I, a, k):
        t = as_tensor(a[0])
        ks = [z3.Int(I.path.fresh_name("k_any")) for _ in t.shape]
        rng = [z3.And(kk >= 0, kk < to_z3(s)) for kk, s in zip(ks, t.shape)]
        e = t.elem(ks)
        e = e if z3.is_bool(e) else (to_z3(e) != 0)
        return Scalar0(z3.Exists(ks, z3.And(*rng, e)) if ks else e)
    ext["torch.any"] = any_
    ext["torch.unsqueeze"] = wrap(unsqueeze)

    def cat(I, a, k):
        """torch.cat(tensors, dim=0) along the LEADING dimension: entry i comes from the first tensor whose cumulative size exceeds i; the
        other dimensions must agree (side condition)"""
        ts = [as_tensor(t) for t in B.iterate(I, a[0])]
        dim = k.get("dim", a[1] if len(a) > 1 else 0)
        if not ts:
            I.raise_("RuntimeError", "torch.cat of an empty list")
        if len(ts) == 1:
            return ts[0]
        if not (is_intlike(dim) and not is_z3(dim) and dim == 0):
            raise Unsupported("torch.cat along a dimension other than 0")
        r = ts[0].rank
        for t in ts[1:]:
            if t.rank != r:
                I.raise_("RuntimeError", "torch.cat ranks")
            for d in range(1, r):
                I.require("cat.trailing_dims_equal", to_z3(t.shape[d]) == to_z3(ts[0].shape[d]))
        total = ts[0].shape[0]
        for t in ts[1:]:
            total = total + t.shape[0]

        def elem(idx, ts=ts):
            i = to_z3(lin(idx[0]))
            off, out = 0, None
            parts = []
            for t in ts:
                parts.append((off, t))
                off = off + t.shape[0]
            out = parts[-1][1].elem([i - to_z3(parts[-1][0])] + list(idx[1:]))
            for o, t in reversed(parts[:-1]):
                out = z3.If(i < to_z3(o + t.shape[0]), to_z3(t.elem([i - to_z3(o)] + list(idx[1:]))), to_z3(out))
            return out
        return Tensor([total] + list(ts[0].shape[1:]), elem, ts[0].dtype)
    ext["torch.cat"] = cat

    def np_eye(I, a, k):
        n = a[0]
        t = Tensor([n, n], lambda idx: z3.If(to_z3(lin(idx[0])) == to_z3(lin(idx[1])), z3.RealVal(1), z3.RealVal(0)), "float")
        t.np_like = True
        return t
    ext["numpy.eye"] = np_eye

    def np_transpose(I, a, k):
        axes = k.get("axes", a[1] if len(a) > 1 else None)
        x = as_tensor(a[0])
        r = permute(I, x, list(B.iterate(I, axes)) if axes is not None else list(reversed(range(x.rank))))
        r.np_like = True
        return r
    ext["numpy.transpose"] = np_transpose

    def np_ones(I, a, k):
        shp = a[0]
        shp = [shp] if is_intlike(shp) else list(B.iterate(I, shp))
        t = Tensor(shp, lambda idx: z3.RealVal(1), "float")
        t.np_like = True
        return t
    ext["numpy.ones"] = np_ones

    def block_diag(I, a, k):
        """scipy.linalg.block_diag of 2-D arrays: block b occupies rows [R_b, R_b + r_b) x columns [C_b, C_b + c_b); zero elsewhere"""
        bs = [as_tensor(x) for x in a]
        if any(b.rank != 2 for b in bs):
            raise Unsupported("block_diag of arrays that are not 2-D")
        rows, cols, offs = 0, 0, []
        for b in bs:
            offs.append((rows, cols, b))
            rows, cols = rows + b.shape[0], cols + b.shape[1]

        def elem(idx, offs=offs):
            i, j = to_z3(lin(idx[0])), to_z3(lin(idx[1]))
            out = z3.RealVal(0)
            for r0, c0, b in reversed(offs):
                inside = z3.And(i >= to_z3(r0), i < to_z3(r0 + b.shape[0]), j >= to_z3(c0), j < to_z3(c0 + b.shape[1]))
                out = z3.If(inside, to_z3(b.elem([i - to_z3(r0), j - to_z3(c0)])), out)
            return out
        t = Tensor([rows, cols], elem, "float")
        t.np_like = True
        return t
    ext["scipy.linalg.block_diag"] = block_diag

    def arange(I, a, k):
        if len(a) == 1:
            lo, hi = 0, a[0]
        else:
            lo, hi = a[0], a[1]
        n = hi - lo
        if is_z3(n):
            n = z3.simplify(n)
        return Tensor([n], lambda idx: to_z3(lin(idx[0])) + lo, "long")
    ext["torch.arange"] = arange
    ext["torch.empty"] = lambda I, a, k: Tensor(list(B.iterate(I, k.get("size", a[0] if a else ()))), lambda idx: z3.RealVal(0),
                                                 "long" if "int" in str(getattr(k.get("dtype"), "dotted", "")) else "float")
    ext["torch.addcmul"] = lambda I, a, k: binary(I, "add", a[0], binary(I, "mul", a[1], a[2]))

    class Dist:
        """torch.distributions.<D>(params).log_prob(x): an elementwise function of x and the parameters, broadcast as torch
        does (assumed contract; the closed forms are part of the trusted base)"""

        def __init__(self, name, params):
            self.name, self.params = name, params

        def __vf_getattr__(self, I_, attr):
            if attr == "log_prob":
                def log_prob(x):
                    ts = [as_tensor(x)] + [as_tensor(p) for p in self.params]
                    shape = broadcast_shapes(I, [t.shape for t in ts], "log_prob")
                    rank = len(shape)
                    return Tensor(shape, lambda idx: elemwise("logpdf_" + self.name, *[t.elem(bidx(t, idx, rank)) for t in ts]), "float")
                return BoundBuiltin(log_prob)
            raise Unsupported(f"distribution.{attr}")

    class Dirichlet:
        """torch.distributions.Dirichlet(concentration).sample(size): a tensor of shape (*size, len(concentration)) whose entries
        along the LAST axis form a point of the simplex (assumed contract); the sample is a fresh uninterpreted leaf"""

        def __init__(self, conc):
            self.conc = conc

        def __vf_getattr__(self, I_, attr):
            if attr == "sample":
                def sample(size=()):
                    dims = list(B.iterate(I, size)) + [as_tensor(self.conc).shape[0]]
                    t = leaf(I, "dirichlet_sample", dims)
                    I.__dict__.setdefault("dirichlet_samples", []).append(t)
                    return t
                return BoundBuiltin(sample)
            raise Unsupported(f"Dirichlet.{attr}")

    ext["torch.distributions.Dirichlet"] = lambda I, a, k: Dirichlet(a[0])
    ext["torch.Size"] = lambda I, a, k: tuple(B.iterate(I, a[0]))
    ext["torch.full"] = lambda I, a, k: Tensor(list(B.iterate(I, a[0])), lambda idx, v=k.get("fill_value", a[1] if len(a) > 1 else 0): _real(v), "float")
    ext["torch.Tensor"] = lambda I, a, k: Tensor([B.seq_len(a[0])], lambda idx, s=a[0]: _real(B.as_symseq(s).elem(lin(idx[0])) if not isinstance(s, SymSeq) else s.elem(lin(idx[0]))), "float")
    ext["torch.from_numpy"] = lambda I, a, k: a[0] if isinstance(a[0], Tensor) else Tensor([len(a[0].values)], lambda idx, s=a[0]: _real(B.as_symseq(s.values).elem(lin(idx[0]))), "float")
    ext["torch.distributions.Normal"] =lambda I, a, k: Dist("normal", [k.get("loc", a[0] if a else None), k.get("scale", a[1] if len(a) > 1 else None)])
    ext["torch.distributions.Binomial"] = lambda I, a, k: Dist("binomial_" + ("probs" if "probs" in k else "logits"),
                                                                [a[0] if a else k.get("total_count"), k.get("probs", k.get("logits"))])
    orig_call = I.call

    def call(f, args, kwargs):
        if isinstance(f, VmapVal):
            return call_vmap(I, f, args)
        return orig_call(f, args, kwargs)
    I.call = call
