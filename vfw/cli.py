"""vf: the check driver.

  ./vf check C14 [--tier quick|thorough]     run the proof obligations and the bounded stand-in of one property,
                                              write evidence/C14.json, print VIOLATION lines, exit 0/1/2/3
  ./vf replay <file>                          re-run the replay of a recorded violation
  ./vf list                                   obligations per property
  ./vf baseline                               rewrite baseline/obligations.json from the current (reference) tree

exit 0: every baseline obligation discharged, covers reachable, bounded stand-in found nothing
exit 1: an obligation is refuted (counter-model) or the bounded stand-in found a failing input  -> VIOLATION line
exit 2: undecided (solver unknown / timeout / construct out of subset / obligation disappeared) -> never a violation
exit 3: checker crash
"""
from __future__ import annotations

import argparse
import glob
import importlib
import json
import os
import subprocess
import sys
import time

ROOT = os.path.dirname(os.path.dirname(os.path.abspath(__file__)))
WORK = os.path.join(ROOT, ".work")
# mutation self-tests redirect the outputs so that the committed evidence is never overwritten by a run on a scratch tree
OUT = os.environ.get("VERIF_OUT_DIR", ROOT)
if OUT != ROOT:
    WORK = os.path.join(OUT, ".work")
VENV_PY = "/venv/bin/python"
REPO = os.environ.get("VERIF_REPO", "/repo")

TRUSTED_BASE = [
    "the VC generator itself (engine/*.py: AST symbolic interpreter, sequence/set/tensor encodings); mitigated by "
    "the mutation self-tests recorded in DESIGN.md and by the CPython cross-check run by `vf setup` (tools/engine_crosscheck*.py: ~1400 concrete "
    "calls / operator runs / template circuits executed natively and inside the engine, results identical)",
    "z3 4.x/5.1 (python3-vt) and cvc5 1.0.3 on z3's unknowns",
    "assumed contracts of Python builtins, itertools, functools.partial, copy.copy (engine/builtins_.py, engine/stubs.py)",
    "assumed contracts of torch primitives (engine/tensor.py install()): unsqueeze squeeze permute transpose movedim "
    "flatten view/reshape expand sum prod logsumexp amax softmax log_softmax exp log sqrt sigmoid softplus conj square "
    "clamp reciprocal matmul einsum where index_select advanced indexing arange zeros zeros_like vmap(kron) vmap(diag)",
    "nn.Module.__init__ / register_buffer stubbed (attribute registration only)",
    "floating point treated as real arithmetic; exp/log/sqrt/sigmoid/softplus/conj uninterpreted; int64 overflow ignored",
    "finite sums may be re-indexed by a permutation of independent bound variables and by mixed-radix splitting of a "
    "flattened axis (engine/tensor.py make_red)",
    "loop-rule obligations (ids containing .step. / .prefix / .suffix): the induction principle 'prefix establishes the invariant, one iteration from an "
    "arbitrary state preserves it, the suffix uses it' is assumed; the arity of the layer / node in one iteration is enumerated; frame-guarded maps make a "
    "lookup outside the iteration's frame `unsupported` rather than a verdict",
    "assumed contracts of torch.cat (dim 0), einops.rearrange/repeat, torch.gather, torch.distributions (a draw is an uninterpreted value in the support), "
    "numpy.eye / ones / transpose and scipy.linalg.block_diag modelled as tensors; contextvars.ContextVar, heapq.merge, functools.cache as memoisation",
    "iteration order of sets: arbitrary (fresh enumeration per iteration) for SYMBOLIC sets of ints; a set whose elements the engine holds concretely "
    "(heap objects, concrete ints) is iterated in the engine's own CPython order, i.e. one order among those the real run may take",
    "hash(): an uninterpreted function of the value (of the set for sets of ints, of length and elements in order for tuples of ints); identity otherwise",
    "obligations on circuit / graph TEMPLATES are unbounded in every integer, set and tensor but bounded in the shape of the graph (the template)",
]


def contract_modules():
    mods = []
    for p in sorted(glob.glob(os.path.join(ROOT, "contracts", "C*.py"))):
        mods.append("contracts." + os.path.basename(p)[:-3])
    return mods


def load_obligations():
    sys.path.insert(0, ROOT)
    from engine import vc as V
    V.REGISTRY.clear()
    for m in contract_modules():
        importlib.import_module(m)
    return list(V.REGISTRY)


def claimed_level(prop):
    """the level claimed for the property in MANIFEST.json (single source of truth)"""
    try:
        with open(os.path.join(ROOT, "MANIFEST.json")) as f:
            for c in json.load(f).get("checks", []):
                if c["property_id"] == prop:
                    return c["level_claimed"]["category"]
    except Exception:
        pass
    return None


def known_findings():
    p = os.path.join(ROOT, "known_findings.json")
    if not os.path.exists(p):
        return {"findings": [], "fixed": []}
    with open(p) as f:
        return json.load(f)


def run_proof(prop, tier, jobs):
    from engine import run as R
    from engine import vc as V
    obls = [o for o in load_obligations() if o.prop == prop]
    if not obls:
        return {"obligations": [], "wall_s": 0.0}
    R._OBLS.clear()
    R._OBLS.update({o.id: o for o in obls})
    import multiprocessing as mp
    t0 = time.time()
    ids = [o.id for o in obls]
    if jobs <= 1:
        recs = [R._work((None, i)) for i in ids]
    else:
        with mp.get_context("fork").Pool(min(jobs, len(ids))) as pool:
            recs = pool.map(R._work, [(None, i) for i in ids], chunksize=1)
    # a solver budget exhausted under machine load is not a verdict: re-run what is left undecided, alone and with a
    # six times larger budget, before reporting it (refuted / discharged verdicts are never revisited)
    retry = [i for i, r in enumerate(recs) if r["status"] == "undecided"]
    if retry:
        V.SOLVER_TIMEOUT_MS = V.SOLVER_TIMEOUT_MS * 6
        os.environ["VERIF_BRANCH_TIMEOUT_MS"] = "60000"
        for i in retry:
            r2 = R._work((None, recs[i]["id"]))
            r2.setdefault("notes", []).append("re-run with a larger solver budget after an undecided first attempt")
            recs[i] = r2
    return {"obligations": recs, "wall_s": round(time.time() - t0, 2)}


def run_bounded(prop, tier, seed):
    mod = os.path.join(ROOT, "native", "bounded", prop + ".py")
    if not os.path.exists(mod):
        return None
    out = os.path.join(WORK, f"{prop}.bounded.json")
    if os.path.exists(out):
        os.unlink(out)
    env = dict(os.environ)
    env["PYTHONPATH"] = ROOT + (":" + REPO if REPO != "/repo" else "")
    env["OMP_NUM_THREADS"] = env.get("OMP_NUM_THREADS", "2")
    cmd = [VENV_PY, "-m", "native.run_bounded", prop, "--tier", tier, "--seed", str(seed), "--out", out]
    t0 = time.time()
    try:
        p = subprocess.run(cmd, cwd=ROOT, env=env, capture_output=True, text=True,
                           timeout=3600 if tier == "thorough" else 900)
        rc, tail = p.returncode, (p.stdout + p.stderr)[-3000:]
    except subprocess.TimeoutExpired:
        rc, tail = 3, "bounded stand-in timed out"
    res = None
    if os.path.exists(out):
        with open(out) as f:
            res = json.load(f)
    if res is None:
        res = {"crash": tail or "no output", "failures": [], "evaluations": 0, "distinct_nontrivial": 0, "samples": [],
               "known": [], "bound": "", "rule": "", "sections": {}}
    res["returncode"] = rc
    res["wall_s"] = round(time.time() - t0, 2)
    return res


def write_replay(prop, name, payload, script=None):
    d = os.path.join(OUT, "replays")
    os.makedirs(d, exist_ok=True)
    safe = "".join(c if c.isalnum() or c in "._-" else "_" for c in name)[:120]
    path = os.path.join(d, f"{prop}-{safe}.json")
    if script:
        spath = path[:-5] + ".py"
        with open(spath, "w") as f:
            f.write(script)
        payload["replay_script"] = os.path.relpath(spath, OUT)
    with open(path, "w") as f:
        json.dump(payload, f, indent=1, default=str)
    return os.path.relpath(path, OUT)


def run_script(script_path):
    env = dict(os.environ)
    env["PYTHONPATH"] = ROOT + (":" + REPO if REPO != "/repo" else "")
    try:
        p = subprocess.run([VENV_PY, script_path], cwd=ROOT, env=env, capture_output=True, text=True, timeout=600)
        return p.returncode, (p.stdout + p.stderr)[-2000:]
    except subprocess.TimeoutExpired:
        return 3, "timeout"


def native_replay_for(obl_rec, clause):
    """Replay a counter-model natively when the contract module offers a replay generator."""
    sys.path.insert(0, ROOT)
    try:
        from contracts import replays as RP
    except Exception:
        return None
    gen = RP.find(obl_rec["id"])
    if gen is None:
        return None
    try:
        return gen(obl_rec, clause)
    except Exception as e:  # a broken replay generator must not hide the refutation
        return f"# replay generator failed: {e}\nimport sys; sys.exit(0)\n"


def setup():
    """offline sanity of the two interpreters and the solvers; builds nothing outside /verif"""
    os.makedirs(WORK, exist_ok=True)
    os.makedirs(os.path.join(ROOT, "evidence"), exist_ok=True)
    import z3
    s = z3.Solver()
    x = z3.Int("x")
    s.add(x > 1, x < 3)
    assert str(s.check()) == "sat"
    print("z3", z3.get_version_string())
    p = subprocess.run(["/usr/bin/cvc5", "--version"], capture_output=True, text=True)
    print((p.stdout.splitlines() or ["cvc5 missing"])[0])
    env = dict(os.environ, PYTHONPATH=ROOT + (":" + REPO if REPO != "/repo" else ""))
    p = subprocess.run([VENV_PY, "-c", "import torch, numpy, cirkit, native.refinterp, native.gen; print('torch', torch.__version__, 'cirkit', cirkit.__file__)"],
                       cwd=ROOT, env=env, capture_output=True, text=True)
    print(p.stdout.strip() or p.stderr[-500:])
    if p.returncode != 0:
        return 3
    n = len(load_obligations())
    print("contract harnesses:", n)
    # CPython cross-check of the symbolic executor on stdlib-only functions of the tree: a mismatch means the engine mis-models Python
    p = subprocess.run([sys.executable, os.path.join(ROOT, "tools", "engine_crosscheck.py")], cwd=ROOT, env=dict(os.environ), capture_output=True, text=True)
    print("\n".join(l for l in p.stdout.strip().splitlines() if l.startswith("engine cross-check")) or p.stderr[-300:])
    if p.returncode != 0:
        print(p.stdout[-2000:])
        return 3
    return 0 if n > 0 else 3


def check(prop, tier, seed, jobs):
    os.makedirs(WORK, exist_ok=True)
    os.makedirs(os.path.join(ROOT, "evidence"), exist_ok=True)
    os.environ["VERIF_TIER"] = tier
    os.environ.setdefault("VERIF_WORK", WORK)
    t0 = time.time()
    kf = known_findings()
    proof = run_proof(prop, tier, jobs)
    bounded = run_bounded(prop, tier, seed)
    with open(os.path.join(ROOT, "baseline", "obligations.json")) as f:
        baseline = json.load(f).get(prop, [])
    recs = proof["obligations"]
    by_id = {r["id"]: r for r in recs}
    n_clauses = sum(len(r["clauses"]) for r in recs)
    n_disch = sum(1 for r in recs for c in r["clauses"] if c["status"] == "discharged" and r["status"] not in ("vacuous",))
    violations, undecided, crashes, known_lines = [], [], [], []
    known_ids = {k["match"]: k for k in kf.get("findings", []) if k.get("property") == prop}

    def is_known(text):
        for m, k in known_ids.items():
            if m in text:
                return k
        return None

    for r in recs:
        if r["status"] == "refuted":
            for c in r["clauses"]:
                if c["status"] != "refuted":
                    continue
                name = f"{r['id']}::{c['label']}"
                k = is_known(name)
                if k is not None:
                    known_lines.append(f"KNOWN-FINDING: property={prop} {k['what']}")
                    continue
                script = native_replay_for(r, c)
                payload = {"property": prop, "obligation": r["id"], "clause": c["label"], "kind": "refuted obligation",
                           "counter_model": c["model"], "doc": r.get("doc", ""), "functions": r["functions"],
                           "solver": c.get("backend", "z3"), "tier": tier}
                rp = write_replay(prop, name, payload, script)
                suffix = ""
                if script is None:
                    suffix = " no-failing-input-found"
                else:
                    rc, out = run_script(os.path.join(OUT, rp[:-5] + ".py"))
                    payload["native_replay"] = {"returncode": rc, "output": out}
                    with open(os.path.join(OUT, rp), "w") as f:
                        json.dump(payload, f, indent=1, default=str)
                    if rc != 1:
                        suffix = " no-failing-input-found"
                violations.append((name, rp, suffix))
        elif r["status"] in ("undecided", "unsupported", "vacuous"):
            undecided.append(f"{r['id']}: {r['status']} {r.get('error', '')}")
        elif r["status"] == "error":
            crashes.append(f"{r['id']}: {r.get('error', '')}")
    missing = [b for b in baseline if b not in by_id]
    for b in missing:
        undecided.append(f"{b}: obligation disappeared (vacuity guard)")
    if bounded is not None:
        if bounded.get("crash"):
            crashes.append("bounded stand-in crashed: " + str(bounded["crash"])[-400:])
        for fl in bounded.get("failures", []):
            name = "bounded::" + json.dumps(fl["case"], default=str)[:100]
            k = is_known(json.dumps(fl, default=str))
            if k is not None:
                known_lines.append(f"KNOWN-FINDING: property={prop} {k['what']}")
                continue
            payload = {"property": prop, "kind": "bounded stand-in failing input", "case": fl["case"], "what": fl["what"], "tier": tier}
            rp = write_replay(prop, name, payload, fl.get("replay") or None)
            violations.append((name, rp, ""))
        for kn in bounded.get("known", []):
            k = known_ids.get(kn["id"])
            if kn["present"]:
                if k is not None:
                    known_lines.append(f"KNOWN-FINDING: property={prop} {k['what']}")
                else:
                    payload = {"property": prop, "kind": "unlisted finding probe", "probe": kn}
                    violations.append(("probe::" + kn["id"], write_replay(prop, "probe-" + kn["id"], payload), ""))
    # ------------------------------------------------------------------ evidence
    funcs = {}
    for r in recs:
        funcs.update(r.get("functions", {}))
    notes = sorted({n for r in recs for n in r.get("notes", [])})
    samples = []
    for r in recs[:3]:
        samples.append({"obligation": r["id"], "doc": r.get("doc", "")[:200], "paths": r["paths"], "clauses": [
            {"label": c["label"], "status": c["status"], "backend": c.get("backend", "z3"), "time_s": c["time_s"]} for c in r["clauses"][:6]]})
    have_proof = n_clauses > 0
    level = claimed_level(prop) or ("proof" if have_proof else "exploration")
    coverage = {}
    proofcov = {}
    if have_proof:
        proofcov = {
            "obligations": n_clauses, "discharged": n_disch,
            "checker_cmd": f"./vf check {prop} --tier {tier}  (python3-vt -m engine.run over contracts/*.py, obligations with property == {prop})",
            "trusted_base": TRUSTED_BASE,
            "harnesses": len(recs), "harnesses_discharged": sum(1 for r in recs if r["status"] == "discharged"),
            "paths_explored": sum(r["paths"] for r in recs),
            "functions_under_contract": funcs,
            "backends": {"z3": sum(1 for r in recs for c in r["clauses"] if c.get("backend", "z3") == "z3"),
                         "cvc5": sum(1 for r in recs for c in r["clauses"] if c.get("backend") == "cvc5")},
            "solver_time_s": round(sum(r.get("solver_time_s", 0) for r in recs), 3),
            "proof_wall_s": proof["wall_s"],
            "unchecked_assumptions": notes,
            "undecided": undecided,
            "obligation_samples" if level != "proof" else "samples": samples,
            "obligation_ids": [r["id"] for r in recs][:400],
            "rank_bound": "tensor kernels: rank enumerated up to 3 (quick) / 4 (thorough); sizes unbounded; shape code: any rank",
        }
        if level == "proof":
            coverage.update(proofcov)
        else:
            coverage["proved_clauses"] = dict(proofcov, note="contract obligations discharged for the functions listed; they cover "
                                              "only part of the property (see DESIGN.md), the rest is the bounded stand-in below")
    if bounded is not None:
        bs = {"labelled": "bounded stand-in - never counted in obligations/discharged", "bound": bounded.get("bound", ""),
              "rule": bounded.get("rule", ""), "evaluations": bounded.get("evaluations", 0),
              "distinct_nontrivial": bounded.get("distinct_nontrivial", 0), "sections": bounded.get("sections", {}),
              "failures": len(bounded.get("failures", [])), "wall_s": bounded.get("wall_s", 0), "samples": bounded.get("samples", [])[:4]}
        coverage["bounded_standins"] = bs
        if level != "proof":
            coverage.update({"evaluations": bs["evaluations"], "distinct_nontrivial": bs["distinct_nontrivial"],
                             "rule": bs["rule"] + " | bound: " + bs["bound"], "samples": bs["samples"] or ["(none)"],
                             "exhaustive": False})
    coverage["known_findings"] = known_lines
    coverage["explanation"] = (f"{n_disch}/{n_clauses} proof clauses discharged over {len(recs)} contract harnesses; "
                               + ("bounded stand-in: %d evaluations, %d failures" % (bounded.get("evaluations", 0), len(bounded.get("failures", []))) if bounded is not None else "no bounded stand-in"))
    ev = {"property_id": prop, "tier": tier, "seed": seed, "level": level,
          "coverage": coverage,
          "assumptions": TRUSTED_BASE + notes + ["repo tree: " + REPO],
          "wall_s": round(time.time() - t0, 2), "violations": len(violations)}
    os.makedirs(os.path.join(OUT, "evidence"), exist_ok=True)
    with open(os.path.join(OUT, "evidence", f"{prop}.json"), "w") as f:
        json.dump(ev, f, indent=1, default=str)
    for ln in known_lines:
        print(ln)
    for name, rp, suffix in violations:
        print(f"VIOLATION property={prop} replay={rp}{suffix}")
    print(f"[{prop}] proof: {n_disch}/{n_clauses} clauses over {len(recs)} harnesses in {proof['wall_s']}s; "
          f"bounded: {('%d evaluations, %d failures, %ss' % (bounded.get('evaluations', 0), len(bounded.get('failures', [])), bounded.get('wall_s'))) if bounded is not None else 'none'}; "
          f"violations={len(violations)} undecided={len(undecided)} crashes={len(crashes)}")
    for u in undecided[:20]:
        print("  undecided:", u)
    for c in crashes[:10]:
        print("  crash:", c)
    if violations:
        return 1
    if crashes:
        return 3
    if undecided:
        return 2
    if have_proof and n_disch != n_clauses:
        return 2
    return 0


def main():
    ap = argparse.ArgumentParser()
    sub = ap.add_subparsers(dest="cmd", required=True)
    c = sub.add_parser("check")
    c.add_argument("prop")
    c.add_argument("--tier", default=os.environ.get("VERIF_TIER", "quick"))
    c.add_argument("--seed", type=int, default=int(os.environ.get("VERIF_SEED", "0")))
    c.add_argument("--jobs", type=int, default=int(os.environ.get("VERIF_JOBS", "16")))
    sub.add_parser("list")
    sub.add_parser("setup")
    sub.add_parser("baseline")
    r = sub.add_parser("replay")
    r.add_argument("file")
    a = ap.parse_args()
    if a.cmd == "check":
        sys.exit(check(a.prop, a.tier, a.seed, a.jobs))
    if a.cmd == "setup":
        sys.exit(setup())
    if a.cmd == "list":
        by = {}
        for o in load_obligations():
            by.setdefault(o.prop, []).append(o.id)
        for p in sorted(by):
            print(p, len(by[p]))
            for i in by[p]:
                print("   ", i)
    if a.cmd == "baseline":
        by = {}
        for o in load_obligations():
            by.setdefault(o.prop, []).append(o.id)
        os.makedirs(os.path.join(ROOT, "baseline"), exist_ok=True)
        with open(os.path.join(ROOT, "baseline", "obligations.json"), "w") as f:
            json.dump({k: sorted(v) for k, v in sorted(by.items())}, f, indent=1)
        print({k: len(v) for k, v in by.items()})
    if a.cmd == "replay":
        with open(a.file) as f:
            payload = json.load(f)
        sp = payload.get("replay_script")
        if not sp:
            print("no native replay script recorded; obligation:", payload.get("obligation"), payload.get("counter_model"))
            sys.exit(2)
        rc, out = run_script(os.path.join(OUT, sp))
        print(out)
        sys.exit(rc)


if __name__ == "__main__":
    main()
